import RNacos.Lemmas.Naming
/-!
# C12 — registry queries return exactly live registrations; disconnect removes own only

Model: `RNacos/Model/Naming.lean`.
-/
namespace RNacos.Props.C12
open RNacos RNacos.Naming

/-! ## instance queries -/

/-- the protection threshold is reached: healthy/total ≤ threshold (both sides ×1000·total) -/
def Protected (all : List Inst) (protect : Nat) : Prop :=
  all.length > 0 ∧ (all.filter (·.healthy)).length * 1000 ≤ protect * all.length

theorem filterList_protected (all : List Inst) (p : Nat) (ho : Bool) (h : Protected all p) :
    filterList all p ho = all.map fun i => { i with healthy := true } := by
  unfold filterList
  have : (decide (all.length > 0) && decide ((all.filter (·.healthy)).length * 1000 ≤ p * all.length)) = true := by
    simp [h.1, h.2]
  simp only [this, if_true]

theorem filterList_unprotected (all : List Inst) (p : Nat) (ho : Bool) (h : ¬ Protected all p) :
    filterList all p ho = if ho then all.filter (·.healthy) else all := by
  unfold filterList
  have : (decide (all.length > 0) && decide ((all.filter (·.healthy)).length * 1000 ≤ p * all.length)) = false := by
    unfold Protected at h
    by_cases h1 : all.length > 0
    · have h2 : ¬ ((all.filter (·.healthy)).length * 1000 ≤ p * all.length) := fun hh => h ⟨h1, hh⟩
      simp [h1, h2]
    · simp [h1]
  simp only [this, Bool.false_eq_true, if_false]

/-- **no deregistered or foreign instance is included**: whatever an instance query returns is an enabled
instance currently stored for that service (its health flag possibly raised by the protection rule) -/
theorem query_only_registered (n : Naming) (k : SKey) (ho : Bool) (r : Inst) (hr : r ∈ n.queryList k ho) :
    ∃ s key i, AL.get? n.services k = some s ∧ (key, i) ∈ s.insts ∧ i.enabled = true ∧
      (r = i ∨ r = { i with healthy := true }) := by
  unfold Naming.queryList at hr
  cases hs : AL.get? n.services k with
  | none => rw [hs] at hr; simp at hr
  | some s =>
    rw [hs] at hr
    simp only at hr
    by_cases hp : Protected ((s.insts.map (·.2)).filter (·.enabled)) s.protect
    · rw [filterList_protected _ _ _ hp] at hr
      obtain ⟨i, hi, rfl⟩ := List.mem_map.mp hr
      obtain ⟨hi1, hi2⟩ := List.mem_filter.mp hi
      obtain ⟨e, he, rfl⟩ := List.mem_map.mp hi1
      exact ⟨s, e.1, e.2, rfl, he, hi2, Or.inr rfl⟩
    · rw [filterList_unprotected _ _ _ hp] at hr
      have hmem : r ∈ (s.insts.map (·.2)).filter (·.enabled) := by
        cases ho
        · simpa using hr
        · simp only [if_true] at hr; exact (List.mem_filter.mp hr).1
      obtain ⟨hi1, hi2⟩ := List.mem_filter.mp hmem
      obtain ⟨e, he, rfl⟩ := List.mem_map.mp hi1
      exact ⟨s, e.1, e.2, rfl, he, hi2, Or.inl rfl⟩

/-- **no registered address is missing**: every stored enabled instance is returned when all instances are
asked for; when only healthy ones are asked for, every healthy one is returned, and every one at all
when the protection threshold is reached -/
theorem query_complete (n : Naming) (k : SKey) (ho : Bool) (s : Svc) (key : ShortKey) (i : Inst)
    (hs : AL.get? n.services k = some s) (hi : (key, i) ∈ s.insts) (hen : i.enabled = true)
    (hh : ho = false ∨ i.healthy = true ∨ Protected ((s.insts.map (·.2)).filter (·.enabled)) s.protect) :
    i ∈ n.queryList k ho ∨ { i with healthy := true } ∈ n.queryList k ho := by
  unfold Naming.queryList
  rw [hs]
  simp only
  have hall : i ∈ (s.insts.map (·.2)).filter (·.enabled) :=
    List.mem_filter.mpr ⟨List.mem_map.mpr ⟨(key, i), hi, rfl⟩, hen⟩
  by_cases hp : Protected ((s.insts.map (·.2)).filter (·.enabled)) s.protect
  · rw [filterList_protected _ _ _ hp]
    exact Or.inr (List.mem_map.mpr ⟨i, hall, rfl⟩)
  · rw [filterList_unprotected _ _ _ hp]
    left
    rcases hh with h | h | h
    · subst h; simpa using hall
    · cases ho
      · simpa using hall
      · simp only [if_true]; exact List.mem_filter.mpr ⟨hall, h⟩
    · exact absurd h hp

/-- healthy-only means healthy-only, unless the protection threshold is reached -/
theorem healthy_only_unless_protected (n : Naming) (k : SKey) (s : Svc) (hs : AL.get? n.services k = some s)
    (hp : ¬ Protected ((s.insts.map (·.2)).filter (·.enabled)) s.protect) (r : Inst)
    (hr : r ∈ n.queryList k true) : r.healthy = true := by
  unfold Naming.queryList at hr
  rw [hs] at hr
  simp only at hr
  rw [filterList_unprotected _ _ _ hp] at hr
  simp only [if_true] at hr
  exact (List.mem_filter.mp hr).2

/-! ## registration -/

/-- **a newly registered instance carries the address, ephemeral flag, enabled flag and weight it was
registered with** -/
theorem new_carries_fields (s : Svc) (inst : Inst) (tag : Option Tag) (fs : Bool)
    (hnew : AL.get? s.insts inst.short = none) :
    AL.get? (s.updateInstance inst tag fs).1.insts inst.short = some inst := by
  unfold Svc.updateInstance
  rw [hnew]
  simp [Svc.insertInst]

/-- a re-registration never changes the address under which the instance is stored, and an ephemeral
HTTP re-registration of a gRPC-owned address keeps the gRPC owner -/
theorem reregister_keeps_grpc_owner (inst old : Inst) (he : inst.ephemeral = true) (hg : inst.fromGrpc = false)
    (ho : old.fromGrpc = true) :
    (keepOwner inst old).clientId = old.clientId ∧ (keepOwner inst old).fromGrpc = true := by
  unfold keepOwner; simp [he, hg, ho]

/-! ## deregistration and disconnect -/

/-- **a deregistration with a different, non-empty client id does not remove an ephemeral instance** -/
theorem deregister_guard (s : Svc) (key : ShortKey) (old : Inst) (c : String) (now : Int)
    (hg : AL.get? s.insts key = some old) (he : old.ephemeral = true) (hc : c ≠ "") (hne : old.clientId ≠ c) :
    s.removeInstance key (some c) now = (s, none) := by
  unfold Svc.removeInstance
  have : s.refuses key (some c) = true := by
    unfold Svc.refuses
    rw [hg]
    have h1 : c.isEmpty = false := by
      cases hce : c.isEmpty with
      | false => rfl
      | true => exfalso; apply hc; simpa using hce
    simp [he, h1, hne]
  simp [this]

/-- a matching (or empty) client id removes it -/
theorem deregister_own (s : Svc) (key : ShortKey) (old : Inst) (c : String) (now : Int)
    (hg : AL.get? s.insts key = some old) (hc : c = "" ∨ old.clientId = c) :
    (s.removeInstance key (some c) now).2 = some old ∧
    AL.get? (s.removeInstance key (some c) now).1.insts key = none := by
  unfold Svc.removeInstance
  have : s.refuses key (some c) = false := by
    unfold Svc.refuses
    rw [hg]
    rcases hc with h | h
    · subst h; simp
    · simp [h]
  simp only [this, Bool.false_eq_true, if_false, hg]
  exact ⟨trivial, by simp [Svc.dropInst, AL.get?_erase_same]⟩

/-- one step of the disconnect loop never touches an instance of another client, nor a persistent one -/
theorem removeClientStep_keeps (c : String) (now : Int) (acc : Naming) (ik : IKey) (k : SKey) (key : ShortKey)
    (i : Inst) (s : Svc) (hc : c ≠ "") (hs : AL.get? acc.services k = some s) (hi : AL.get? s.insts key = some i)
    (hkeep : i.ephemeral = false ∨ i.clientId ≠ c) :
    ∃ s', AL.get? (Naming.removeClientStep c now acc ik).services k = some s' ∧ AL.get? s'.insts key = some i := by
  unfold Naming.removeClientStep
  by_cases hp : acc.isPersistent ik = true
  · simp only [hp, if_true]; exact ⟨s, hs, hi⟩
  · simp only [hp, Bool.false_eq_true, if_false]
    unfold Naming.removeInstance
    by_cases ek : ik.skey = k
    · rw [ek, hs]
      simp only
      refine ⟨(s.removeInstance ik.short (some c) now).1, by simp, ?_⟩
      by_cases es : ik.short = key
      · -- the step targets this very instance: it is refused (other client) or skipped (persistent)
        rcases hkeep with hpers | hother
        · exfalso; apply hp
          simp only [Naming.isPersistent, ek, hs, es, hi, hpers]; rfl
        · by_cases he : i.ephemeral = true
          · rw [es, deregister_guard s key i c now hi he hc hother]; exact hi
          · exfalso; apply hp
            have he' : i.ephemeral = false := by simpa using he
            simp only [Naming.isPersistent, ek, hs, es, hi, he']; rfl
      · rw [removeInstance_other _ _ _ _ _ es]; exact hi
    · cases hg : AL.get? acc.services ik.skey with
      | none => exact ⟨s, hs, hi⟩
      | some s2 =>
        simp only
        exact ⟨s, by rw [AL.get?_set_other _ _ _ _ ek]; exact hs, hi⟩

/-- **when a connection ends, no instance of any other client and no persistent instance is removed** -/
theorem disconnect_keeps_others (n : Naming) (c : String) (now : Int) (k : SKey) (key : ShortKey)
    (i : Inst) (s : Svc) (h : Inv n) (hs : AL.get? n.services k = some s) (hi : AL.get? s.insts key = some i)
    (hkeep : i.ephemeral = false ∨ i.clientId ≠ c) :
    ∃ s', AL.get? (n.removeClient c now).services k = some s' ∧ AL.get? s'.insts key = some i := by
  unfold Naming.removeClient
  cases hg : AL.get? n.clientSets c with
  | none => exact ⟨s, hs, hi⟩
  | some keys =>
    simp only
    cases hk : keys with
    | nil => exact ⟨s, hs, hi⟩
    | cons ik0 rest0 =>
    -- the client id of a recorded connection is never empty
    have hc : c ≠ "" := by
      obtain ⟨_, _, _, _, _, hne, _⟩ := (h.clients c keys hg).2 ik0 (by rw [hk]; simp)
      exact hne
    have fold : ∀ (ks : List IKey) (acc : Naming) (s0 : Svc), AL.get? acc.services k = some s0 →
        AL.get? s0.insts key = some i →
        ∃ s', AL.get? (ks.foldl (Naming.removeClientStep c now) acc).services k = some s' ∧
          AL.get? s'.insts key = some i := by
      intro ks
      induction ks with
      | nil => intro acc s0 h1 h2; exact ⟨s0, h1, h2⟩
      | cons ik rest ih =>
        intro acc s0 h1 h2
        simp only [List.foldl_cons]
        obtain ⟨s1, g1, g2⟩ := removeClientStep_keeps c now acc ik k key i s0 hc h1 h2 hkeep
        exact ih _ s1 g1 g2
    exact fold (ik0 :: rest0) _ s hs hi

/-- the instance stored under `(k, key)` is gone -/
def Absent (n : Naming) (k : SKey) (key : ShortKey) : Prop :=
  ∀ s, AL.get? n.services k = some s → AL.get? s.insts key = none

theorem removeInstance_none_stays (s : Svc) (key k2 : ShortKey) (c : Option String) (now : Int)
    (h : AL.get? s.insts k2 = none) : AL.get? (s.removeInstance key c now).1.insts k2 = none := by
  by_cases e : key = k2
  · subst e
    unfold Svc.removeInstance
    split
    · exact h
    · rw [h]; exact h
  · rw [removeInstance_other _ _ _ _ _ e]; exact h

theorem removeClientStep_absent_stays (c : String) (now : Int) (acc : Naming) (ik : IKey) (k : SKey) (key : ShortKey)
    (h : Absent acc k key) : Absent (Naming.removeClientStep c now acc ik) k key := by
  unfold Naming.removeClientStep
  split
  · exact h
  · unfold Naming.removeInstance
    cases hg : AL.get? acc.services ik.skey with
    | none => exact h
    | some s2 =>
      simp only
      intro s hs
      by_cases ek : ik.skey = k
      · rw [ek] at hs hg
        simp only [AL.get?_set_same, Option.some.injEq] at hs
        subst hs
        exact removeInstance_none_stays _ _ _ _ _ (h s2 hg)
      · rw [AL.get?_set_other _ _ _ _ ek] at hs
        exact h s hs

/-- **when a connection ends, every ephemeral instance it registered is removed** -/
theorem disconnect_removes_own (n : Naming) (c : String) (now : Int) (keys : List IKey) (ik : IKey)
    (hg : AL.get? n.clientSets c = some keys) (hik : ik ∈ keys)
    (heph : ∀ s i, AL.get? n.services ik.skey = some s → AL.get? s.insts ik.short = some i →
      i.ephemeral = true ∧ i.clientId = c) :
    Absent (n.removeClient c now) ik.skey ik.short := by
  unfold Naming.removeClient
  rw [hg]
  simp only
  have fold : ∀ (ks : List IKey) (acc : Naming), ik ∈ ks →
      (∀ s i, AL.get? acc.services ik.skey = some s → AL.get? s.insts ik.short = some i →
        i.ephemeral = true ∧ i.clientId = c) →
      Absent (ks.foldl (Naming.removeClientStep c now) acc) ik.skey ik.short := by
    intro ks
    induction ks with
    | nil => intro acc hm; cases hm
    | cons ik' rest ih =>
      intro acc hm hacc
      simp only [List.foldl_cons]
      have stays : ∀ (l : List IKey) (a : Naming), Absent a ik.skey ik.short →
          Absent (l.foldl (Naming.removeClientStep c now) a) ik.skey ik.short := by
        intro l
        induction l with
        | nil => intro a ha; exact ha
        | cons x xs ihx => intro a ha; simp only [List.foldl_cons]; exact ihx _ (removeClientStep_absent_stays c now a x _ _ ha)
      by_cases e : ik' = ik
      · subst e
        apply stays
        -- this step removes it (or it was not there)
        unfold Naming.removeClientStep
        cases hs : AL.get? acc.services ik'.skey with
        | none =>
          have hp : acc.isPersistent ik' = false := by simp [Naming.isPersistent, hs]
          simp only [hp, Bool.false_eq_true, if_false]
          unfold Naming.removeInstance; rw [hs]
          intro s h1; rw [hs] at h1; cases h1
        | some s =>
          cases hi : AL.get? s.insts ik'.short with
          | none =>
            have hp : acc.isPersistent ik' = false := by simp [Naming.isPersistent, hs, hi]
            simp only [hp, Bool.false_eq_true, if_false]
            unfold Naming.removeInstance; rw [hs]
            simp only
            intro s' h1
            simp only [AL.get?_set_same, Option.some.injEq] at h1
            subst h1
            exact removeInstance_none_stays _ _ _ _ _ hi
          | some i =>
            obtain ⟨he, hcid⟩ := hacc s i hs hi
            have hp : acc.isPersistent ik' = false := by simp [Naming.isPersistent, hs, hi, he]
            simp only [hp, Bool.false_eq_true, if_false]
            unfold Naming.removeInstance; rw [hs]
            simp only
            intro s' h1
            simp only [AL.get?_set_same, Option.some.injEq] at h1
            subst h1
            exact (deregister_own s ik'.short i c now hi (Or.inr hcid)).2
      · have hm' : ik ∈ rest := by
          simp only [List.mem_cons] at hm
          rcases hm with h | h
          · exact absurd h.symm e
          · exact h
        apply ih _ hm'
        -- the step for another key leaves this instance as it is
        intro s i h1 h2
        unfold Naming.removeClientStep at h1
        by_cases hp : acc.isPersistent ik' = true
        · simp only [hp, if_true] at h1; exact hacc s i h1 h2
        · simp only [hp, Bool.false_eq_true, if_false] at h1
          unfold Naming.removeInstance at h1
          cases hs : AL.get? acc.services ik'.skey with
          | none => rw [hs] at h1; exact hacc s i h1 h2
          | some s2 =>
            rw [hs] at h1
            simp only at h1
            by_cases ek : ik'.skey = ik.skey
            · rw [ek] at h1 hs
              simp only [AL.get?_set_same, Option.some.injEq] at h1
              subst h1
              have hsk : ik'.short ≠ ik.short := by
                intro e2; apply e; cases ik; cases ik'; simp_all
              rw [removeInstance_other _ _ _ _ _ hsk] at h2
              exact hacc s2 i hs h2
            · rw [AL.get?_set_other _ _ _ _ ek] at h1
              exact hacc s i h1 h2
  exact fold keys _ hik heph


/-- **the committed removal of a persistent record never takes an ephemeral registration away**: when the instance
stored under the address is ephemeral (it was re-registered meanwhile), the apply of `NamingRaftReq::RemoveInstance`
changes nothing (fixed finding F31: it used to remove whatever was stored) -/
theorem raft_remove_keeps_ephemeral (n : Naming) (k : SKey) (short : ShortKey) (now : Int) (svc : Svc) (i : Inst)
    (hs : AL.get? n.services k = some svc) (hi : AL.get? svc.insts short = some i) (he : i.ephemeral = true) :
    n.raftRemove k short now = n := by
  simp [Naming.raftRemove, hs, hi, he]

/-- … and it removes a persistent one like a deregistration without a client id does -/
theorem raft_remove_persistent (n : Naming) (k : SKey) (short : ShortKey) (now : Int) (svc : Svc) (i : Inst)
    (hs : AL.get? n.services k = some svc) (hi : AL.get? svc.insts short = some i) (he : i.ephemeral = false) :
    n.raftRemove k short now = (n.removeInstance k short none now).1 := by
  simp [Naming.raftRemove, hs, hi, he]

end RNacos.Props.C12
