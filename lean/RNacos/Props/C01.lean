import RNacos.Lemmas.NsRound
import RNacos.Lemmas.CompRound
import RNacos.Lemmas.NamingSnap
import RNacos.Props.C11
import RNacos.Props.C07
import RNacos.Model.Config
/-!
# C01 — served state survives restart: snapshot plus log replay reproduces it exactly

A restart serves `load (snapshot at c) ; replay (c, last_applied]`.  This file proves the composition:

* `restart_reproduces` – for **any** behaviour of the components: if loading a component's snapshot gives back the
  state it was taken from (`load s = s`, the per-component round trip) then snapshot-at-any-point + replay of the
  suffix equals having applied the whole sequence.  It rests on C07's regenerated tables (replay = leader path).
  That the log suffix read back is the one that was appended is C02/C03, that `last_applied`, the snapshot and
  log catalogue survive is C05.
* the round trip itself for the configuration component, on C09's model: `config_value_roundtrip`,
  `get_after_snapshot_load`, and that every value the apply path produces is of the round-tripping kind
  (`publish_snapshotable`, `import_snapshotable`).  The caveat is kept visible: a *temporary* value
  (`SetTmpValue`, not a Raft request) is written into the snapshot as if stored (`tmp_value_not_roundtripped`).

The other six components' encoders are not modelled; their round trip is the hypothesis `load s = s` here and is
checked by the `apply` correspondence (three real nodes: dumps of the served state before and after
compaction + restart are compared).
-/
namespace RNacos.Props.C01
open RNacos.Apply RNacos.Gen RNacos.Config

variable {α σ : Type}

/-- **restart = snapshot + replay**: for every request sequence and every compaction point -/
theorem restart_reproduces (sem : Sem α σ) (load : State σ → State σ) (hload : ∀ s, load s = s)
    (init : State σ) (rs : List (Req α)) (c : Nat) :
    restart sem leaderTable replayTable load init rs c = applyAll sem leaderTable init rs := by
  unfold restart
  rw [hload, RNacos.Props.C07.replay_same_state]
  unfold applyAll
  rw [← List.foldl_append, List.take_append_drop]

/-- several compactions and restarts in a row change nothing either -/
theorem restarts_reproduce (sem : Sem α σ) (load : State σ → State σ) (hload : ∀ s, load s = s)
    (init : State σ) (rs : List (Req α)) (cs : List Nat) :
    cs.foldl (fun st _ => load st) (applyAll sem leaderTable init rs) = applyAll sem leaderTable init rs := by
  induction cs with
  | nil => rfl
  | cons c cs ih => rw [List.foldl_cons, hload]; exact ih

/-! ### the configuration component's snapshot encoding -/

/-- what a stored configuration value must satisfy for the snapshot encoding (`ConfigValueDO`: content,
histories, type, description) to carry all of it -/
def Snapshotable (v : Value) : Prop :=
  v.tmp = false ∧ v.md5 = v.content ∧
  v.lastModified = (match v.hist.getLast? with | some h => h.time | none => 0) ∧
  v.ctype.map normType = v.ctype

/-- **value round trip**: `ConfigValueDO::from(value)` then `ConfigValue::from(do)` gives the value back -/
theorem config_value_roundtrip (v : Value) (h : Snapshotable v) :
    Value.ofImport v.content v.hist v.ctype v.desc = v := by
  obtain ⟨h1, h2, h3, h4⟩ := h
  cases v with
  | mk content md5 tmp hist ctype desc lastModified =>
  simp only at h1 h2 h3 h4
  simp only [Value.ofImport, Value.mk.injEq, true_and]
  exact ⟨h2.symm, h1.symm, h4, h3.symm⟩

/-- **served again after the load**: loading the snapshot record of a value makes `GET` return that value -/
theorem get_after_snapshot_load (s : Store) (k : Key) (v : Value) (h : Snapshotable v) :
    (s.setFull k v.content v.hist v.ctype v.desc none).get k = some v := by
  unfold Store.setFull Store.get Store.applyMark Store.putCache
  simp only [AL.get?_set_same, config_value_roundtrip v h]

/-- the type normalisation maps its own results to themselves (its image is the fixed list of lower-case literals
`json xml yaml html toml properties text`).  Core Lean's `String` functions do not reduce in the kernel, so this
is a hypothesis of the two theorems below, not a proved fact; `#eval` confirms it for the seven literals and the
`config` correspondence exercises it. -/
def NormIdem : Prop := ∀ x, normType (normType x) = normType x

/-- a value created or changed by a publish (type already normalised by the handler) round-trips -/
theorem publish_snapshotable (hn : NormIdem) (content : String) (hid : Nat) (t : Int) (u : Option String)
    (ct d : Option String) :
    Snapshotable ((Value.init content hid t u).refresh (ct.map normType) d) := by
  refine ⟨rfl, rfl, rfl, ?_⟩
  cases ct with
  | none => rfl
  | some c => simp [Value.refresh, Value.init, hn c]

theorem update_snapshotable (v : Value) (content : String) (hid : Nat) (t : Int) (u : Option String)
    (h : v.ctype.map normType = v.ctype) : Snapshotable (v.update content hid t u) := by
  refine ⟨rfl, rfl, ?_, h⟩
  simp [Value.update]

/-- an imported value (itself the decoding of a snapshot/transfer record) round-trips again -/
theorem import_snapshotable (hn : NormIdem) (content : String) (hist : List Hist) (ct d : Option String) :
    Snapshotable (Value.ofImport content hist ct d) := by
  refine ⟨rfl, rfl, rfl, ?_⟩
  cases ct with
  | none => rfl
  | some c => simp [Value.ofImport, hn c]

/-- kept visible: a temporary value is snapshotted as if it were stored – after a restart it is served as a
regular value with `last_modified = 0` (temporary values are node-local and not Raft requests, hence outside
the quantifier of this property) -/
theorem tmp_value_not_roundtripped :
    ∃ v : Value, v.tmp = true ∧ Value.ofImport v.content v.hist v.ctype v.desc ≠ v :=
  ⟨⟨"x", "x", true, [], none, none, 5⟩, rfl, by decide⟩

/-! ### non-vacuity -/
example : Snapshotable ((Value.init "a" 1 7 none).refresh none (some "d")) := ⟨rfl, rfl, rfl, rfl⟩

end RNacos.Props.C01

/-! ## the namespace component

`RNacos/Model/Namespace.lean` models `NamespaceActor` (entries with origin flags, the four Raft requests, the weak entries
of namespaces that are merely in use, snapshot build and load).  It is executed by the `apply` driver against the node
that never stops (the served list of user namespaces is part of every dump). -/
namespace RNacos.Props.C01
open RNacos.Namespace

/-- **the snapshot round trip of the namespace component** (one of the per-component hypotheses of `restart_reproduces`,
proved): a node that starts from a snapshot serves exactly the user-created namespaces - id, name, order - of the node that
wrote it, whether or not they are also in use -/
theorem namespace_component_roundtrip (s : State) (hnd : (ids s).Nodup)
    (hsys : ∀ e ∈ s, e.1 = "" → hasFlag e.2.flag fUser = false) (hpub : ∀ e ∈ s, e.1 ≠ "public") :
    userList (loadSnapshot initial (buildSnapshot s)) = userList s :=
  namespace_snapshot_roundtrip s hnd hsys hpub

/-- kept visible (known finding F32): `AddOnly` / `Update` depend on whether the weak entry of the namespace has already
arrived from the config actor -/
theorem namespace_addOnly_order_dependent :
    userList (setWeak (apply initial (.addOnly "ns2" (some "name34"))) "ns2" fConfig) ≠
    userList (apply (setWeak initial "ns2" fConfig) (.addOnly "ns2" (some "name34"))) :=
  addOnly_depends_on_order

end RNacos.Props.C01

/-! ## the sequence and table components

`RNacos/Model/Components.lean` models the snapshot encoders and loaders of `SequenceDbManager` (with `id_to_bin` /
`bin_to_id` byte by byte and the `SEQ_CONFIG` branch of `RaftDataHandler::load_snapshot`) and of `TableManager` (with
the tree-name branches of `load_snapshot`).  Both are executed by the `apply` driver: the model predicts the answers of
the sequence requests and the `T_SEQUENCE` / `T_USER` / `T_CACHE` records of the node that never stops. -/
namespace RNacos.Props.C01
open RNacos.Components RNacos.Sequence

/-- **the snapshot round trip of the sequence component**: a node that starts from a snapshot holds, for every
sequence, the next-free value of the node that wrote the snapshot - whatever the iteration order of the map -/
theorem sequence_component_roundtrip (db : SeqDb) (hn : AL.NodupKeys db) (hok : SeqOK db) (k : String) :
    AL.get? (seqLoad [] (seqBuild db)) k = AL.get? db k := by
  rw [seqLoad_build_aux db hn hok [] k]
  cases AL.get? db k <;> simp [AL.get?]

/-- hence the next id it hands out is the one the stopped node would have handed out (*issued sequence counters*) -/
theorem sequence_next_after_restart (db : SeqDb) (hn : AL.NodupKeys db) (hok : SeqOK db) (op : DbOp) :
    ((seqLoad [] (seqBuild db)).step op).2 = (db.step op).2 := by
  cases op <;> simp [SeqDb.step, SeqDb.next, sequence_component_roundtrip db hn hok]

/-- distinct keys are an invariant of the request semantics (so `hn` above holds in every reachable state) -/
theorem sequence_keys_distinct (db : SeqDb) (hn : AL.NodupKeys db) (op : DbOp) : AL.NodupKeys (db.step op).1 := by
  cases op <;> simp only [SeqDb.step]
  · exact AL.nodupKeys_set _ _ _ hn
  · exact AL.nodupKeys_set _ _ _ hn
  · exact AL.nodupKeys_set _ _ _ hn
  · exact AL.nodupKeys_erase _ _ hn

/-- kept visible: the snapshot loader sends the record keyed `SEQ_CONFIG` to the config actor, so a replicated
sequence of that name would restart at 1 (no code path creates one; excluded by `SeqOK`) -/
theorem sequence_named_seq_config_not_restored :
    AL.get? (seqLoad [] (seqBuild [("SEQ_CONFIG", 7)])) "SEQ_CONFIG" = none := by decide

/-- **the snapshot round trip of the table component**: every entry of the user and cache tables is read back,
nothing else appears - for any number of tables' entries and any iteration order -/
theorem table_component_roundtrip (ts : Tables) (hok : TablesOK ts) (hall : ∀ nt ∈ ts, nt.1 ∈ loadedTrees)
    (t : String) (k : Bytes) :
    tget (tblLoad [] (tblBuild ts)) t k = tget ts t k := by
  rw [tblLoad_build_eq ts hall []]
  have := look_foldl (σ := Tables) (κ := String × Bytes) (ν := Bytes)
    (fun s tk v => tset s tk.1 tk.2 v) (fun s tk => tget s tk.1 tk.2)
    (by
      intro s tk v tk'
      rw [tget_tset]
      by_cases h : tk' = tk
      · subst h; simp
      · have : ¬ (tk'.1 = tk.1 ∧ tk'.2 = tk.2) := fun ⟨a, b⟩ => h (Prod.ext a b)
        simp [h, this])
    (flat ts) (nodupKeys_flat ts hok) [] (t, k)
  simp only at this
  rw [this, get?_flat ts hok.1]
  cases tget ts t k <;> simp [tget, AL.get?]

/-- distinct table names and keys are an invariant of the table requests -/
theorem tables_ok_step (ts : Tables) (h : TablesOK ts) (r : TblReq) : TablesOK (ts.apply r) := by
  obtain ⟨hn, ht⟩ := h
  have hmem : ∀ (t : String) (tb : Table), AL.NodupKeys tb → TablesOK (AL.set ts t tb) := by
    intro t tb htb
    refine ⟨AL.nodupKeys_set _ _ _ hn, ?_⟩
    intro nt hnt
    simp only [AL.set, List.mem_cons] at hnt
    rcases hnt with rfl | hnt
    · exact htb
    · have : nt ∈ ts := mem_of_mem_erase ts t nt hnt
      exact ht nt this
  have hget : ∀ (t : String) (tb : Table), AL.get? ts t = some tb → AL.NodupKeys tb :=
    fun t tb hg => ht (t, tb) (AL.get?_some_mem ts t tb hg)
  cases r with
  | set t k v =>
    apply hmem
    apply AL.nodupKeys_set
    cases hg : AL.get? ts t with
    | none => simp [AL.NodupKeys]
    | some tb => exact hget t tb hg
  | remove t k =>
    simp only [Tables.apply]
    cases hg : AL.get? ts t with
    | none => exact ⟨hn, ht⟩
    | some tb => exact hmem _ _ (AL.nodupKeys_erase _ _ (hget t tb hg))
  | drop t =>
    refine ⟨AL.nodupKeys_erase _ _ hn, ?_⟩
    intro nt hnt
    have : nt ∈ ts := mem_of_mem_erase ts t nt hnt
    exact ht nt this
  | nextId t =>
    simp only [Tables.apply]
    cases hg : AL.get? ts t with
    | none => exact hmem _ _ (by simp [AL.NodupKeys])
    | some tb => exact ⟨hn, ht⟩
  | other => exact ⟨hn, ht⟩

theorem tables_ok_reachable (rs : List TblReq) : TablesOK (rs.foldl Tables.apply []) := by
  have : ∀ (ts : Tables), TablesOK ts → TablesOK (rs.foldl Tables.apply ts) := by
    induction rs with
    | nil => intro ts h; exact h
    | cons r rs ih => intro ts h; exact ih _ (tables_ok_step ts h r)
  exact this [] ⟨by simp [AL.NodupKeys], by simp⟩

/-- kept visible: `load_snapshot` knows the trees `T_USER` and `T_CACHE` only - the entries of a table of any other
name are written into the snapshot and dropped on load (no request in the code base creates such a table) -/
theorem other_tables_not_restored :
    tget (tblLoad [] (tblBuild [("T_OTHER", [([1], [2])])])) "T_OTHER" [1] = none := by decide

/-! non-vacuity -/
example : AL.get? (seqLoad [] (seqBuild [("seq1", 5), ("seq0", 300)])) "seq0" = some 300 := by decide
example : tget (tblLoad [] (tblBuild [("T_USER", [([107, 49], [118])]), ("T_CACHE", [([107, 49], [119])])])) "T_CACHE" [107, 49]
    = some [119] := by decide

end RNacos.Props.C01

/-! ## the registry's persistent instances

`RNacos/Lemmas/NamingSnap.lean` models `NamingActor::{build_snapshot, load_snapshot_record}` and `Instance::{to_do,
from_do}` on the registry model of C11-C13 (the load goes through the ordinary `update_instance`). -/
namespace RNacos.Props.C01
open RNacos.Naming

/-- **the snapshot round trip of the registry**: a node that starts from a snapshot holds, under every service and
address, exactly the persistent instance the writing node held there - address, weight, enabled, health, persistence
class - and no ephemeral one; for every registry state that satisfies C11's invariant, every clock and process range -/
theorem naming_component_roundtrip (n : Naming) (hinv : Inv n) (now : Int) (hashOf : SKey → Nat) (k : SKey)
    (key : ShortKey) :
    lookDo (loadSnapshot now hashOf {} (buildSnapshot n)) k key = (lookDo n k key).filter (fun d => !d.ephemeral) := by
  have hempty : lookDo ({} : Naming) k key = none := rfl
  have habs : (∀ r ∈ buildSnapshot n, keyOf r ≠ (k, key)) →
      lookDo (loadSnapshot now hashOf {} (buildSnapshot n)) k key = none := by
    intro h; rw [lookDo_loadSnapshot_absent now hashOf _ {} k key h, hempty]
  cases hl : lookDo n k key with
  | none =>
    simp only [Option.filter_none]
    apply habs
    intro r hr hkey
    have := (mem_buildSnapshot n hinv k key r.2).1 ⟨r, hr, hkey, rfl⟩
    rw [hl] at this; cases this.1
  | some d =>
    by_cases he : d.ephemeral = true
    · simp only [Option.filter, he, Bool.not_true, Bool.false_eq_true, if_false]
      apply habs
      intro r hr hkey
      have := (mem_buildSnapshot n hinv k key r.2).1 ⟨r, hr, hkey, rfl⟩
      rw [hl] at this
      have hd : d = r.2 := Option.some.inj this.1
      rw [hd] at he; rw [this.2] at he; cases he
    · have he' : d.ephemeral = false := by cases h : d.ephemeral <;> simp_all
      simp only [Option.filter, he', Bool.not_false, if_true]
      obtain ⟨r, hr, hkey, hrd⟩ := (mem_buildSnapshot n hinv k key d).2 ⟨hl, he'⟩
      apply lookDo_loadSnapshot_present now hashOf _ {} k key d ⟨r, hr, hkey⟩
      intro r' hr' hkey'
      have := (mem_buildSnapshot n hinv k key r'.2).1 ⟨r', hr', hkey', rfl⟩
      rw [hl] at this
      exact (Option.some.inj this.1).symm

/-- in particular for every state the registry can reach (C11: `inv_reachable`) -/
theorem naming_roundtrip_reachable (ops : List RNacos.Props.C11.NOp) (hok : RNacos.Props.C11.OpsOK ops) (now : Int)
    (hashOf : SKey → Nat) (k : SKey) (key : ShortKey) :
    lookDo (loadSnapshot now hashOf {} (buildSnapshot (RNacos.Props.C11.run {} ops))) k key =
      (lookDo (RNacos.Props.C11.run {} ops) k key).filter (fun d => !d.ephemeral) :=
  naming_component_roundtrip _ (RNacos.Props.C11.inv_reachable ops hok) now hashOf k key

end RNacos.Props.C01
