import RNacos.Lemmas.NsRound
import RNacos.Props.C07
import RNacos.Model.Config
/-!
# C01 — served state survives restart: snapshot plus log replay reproduces it exactly

A restart serves `load (snapshot at c) ; replay (c, last_applied]`.  This file proves the composition:

* `restart_reproduces` – for **any** behaviour of the components: if loading a component's snapshot gives back the
  state it was taken from (`load s = s`, the per-component round trip) then snapshot-at-any-point + replay of the
  suffix equals having applied the whole sequence.  It rests on C07's regenerated tables (replay = leader path).
  That the log suffix read back is the one that was appended is C02/C03, that `last_applied`, the snapshot and
  log catalogue survive is C05.
* the round trip itself for the configuration component, on C09's model: `config_value_roundtrip`,
  `get_after_snapshot_load`, and that every value the apply path produces is of the round-tripping kind
  (`publish_snapshotable`, `import_snapshotable`).  The caveat is kept visible: a *temporary* value
  (`SetTmpValue`, not a Raft request) is written into the snapshot as if stored (`tmp_value_not_roundtripped`).

The other six components' encoders are not modelled; their round trip is the hypothesis `load s = s` here and is
checked by the `apply` correspondence (three real nodes: dumps of the served state before and after
compaction + restart are compared).
-/
namespace RNacos.Props.C01
open RNacos.Apply RNacos.Gen RNacos.Config

variable {α σ : Type}

/-- **restart = snapshot + replay**: for every request sequence and every compaction point -/
theorem restart_reproduces (sem : Sem α σ) (load : State σ → State σ) (hload : ∀ s, load s = s)
    (init : State σ) (rs : List (Req α)) (c : Nat) :
    restart sem leaderTable replayTable load init rs c = applyAll sem leaderTable init rs := by
  unfold restart
  rw [hload, RNacos.Props.C07.replay_same_state]
  unfold applyAll
  rw [← List.foldl_append, List.take_append_drop]

/-- several compactions and restarts in a row change nothing either -/
theorem restarts_reproduce (sem : Sem α σ) (load : State σ → State σ) (hload : ∀ s, load s = s)
    (init : State σ) (rs : List (Req α)) (cs : List Nat) :
    cs.foldl (fun st _ => load st) (applyAll sem leaderTable init rs) = applyAll sem leaderTable init rs := by
  induction cs with
  | nil => rfl
  | cons c cs ih => rw [List.foldl_cons, hload]; exact ih

/-! ### the configuration component's snapshot encoding -/

/-- what a stored configuration value must satisfy for the snapshot encoding (`ConfigValueDO`: content,
histories, type, description) to carry all of it -/
def Snapshotable (v : Value) : Prop :=
  v.tmp = false ∧ v.md5 = v.content ∧
  v.lastModified = (match v.hist.getLast? with | some h => h.time | none => 0) ∧
  v.ctype.map normType = v.ctype

/-- **value round trip**: `ConfigValueDO::from(value)` then `ConfigValue::from(do)` gives the value back -/
theorem config_value_roundtrip (v : Value) (h : Snapshotable v) :
    Value.ofImport v.content v.hist v.ctype v.desc = v := by
  obtain ⟨h1, h2, h3, h4⟩ := h
  cases v with
  | mk content md5 tmp hist ctype desc lastModified =>
  simp only at h1 h2 h3 h4
  simp only [Value.ofImport, Value.mk.injEq, true_and]
  exact ⟨h2.symm, h1.symm, h4, h3.symm⟩

/-- **served again after the load**: loading the snapshot record of a value makes `GET` return that value -/
theorem get_after_snapshot_load (s : Store) (k : Key) (v : Value) (h : Snapshotable v) :
    (s.setFull k v.content v.hist v.ctype v.desc none).get k = some v := by
  unfold Store.setFull Store.get Store.applyMark Store.putCache
  simp only [AL.get?_set_same, config_value_roundtrip v h]

/-- the type normalisation maps its own results to themselves (its image is the fixed list of lower-case literals
`json xml yaml html toml properties text`).  Core Lean's `String` functions do not reduce in the kernel, so this
is a hypothesis of the two theorems below, not a proved fact; `#eval` confirms it for the seven literals and the
`config` correspondence exercises it. -/
def NormIdem : Prop := ∀ x, normType (normType x) = normType x

/-- a value created or changed by a publish (type already normalised by the handler) round-trips -/
theorem publish_snapshotable (hn : NormIdem) (content : String) (hid : Nat) (t : Int) (u : Option String)
    (ct d : Option String) :
    Snapshotable ((Value.init content hid t u).refresh (ct.map normType) d) := by
  refine ⟨rfl, rfl, rfl, ?_⟩
  cases ct with
  | none => rfl
  | some c => simp [Value.refresh, Value.init, hn c]

theorem update_snapshotable (v : Value) (content : String) (hid : Nat) (t : Int) (u : Option String)
    (h : v.ctype.map normType = v.ctype) : Snapshotable (v.update content hid t u) := by
  refine ⟨rfl, rfl, ?_, h⟩
  simp [Value.update]

/-- an imported value (itself the decoding of a snapshot/transfer record) round-trips again -/
theorem import_snapshotable (hn : NormIdem) (content : String) (hist : List Hist) (ct d : Option String) :
    Snapshotable (Value.ofImport content hist ct d) := by
  refine ⟨rfl, rfl, rfl, ?_⟩
  cases ct with
  | none => rfl
  | some c => simp [Value.ofImport, hn c]

/-- kept visible: a temporary value is snapshotted as if it were stored – after a restart it is served as a
regular value with `last_modified = 0` (temporary values are node-local and not Raft requests, hence outside
the quantifier of this property) -/
theorem tmp_value_not_roundtripped :
    ∃ v : Value, v.tmp = true ∧ Value.ofImport v.content v.hist v.ctype v.desc ≠ v :=
  ⟨⟨"x", "x", true, [], none, none, 5⟩, rfl, by decide⟩

/-! ### non-vacuity -/
example : Snapshotable ((Value.init "a" 1 7 none).refresh none (some "d")) := ⟨rfl, rfl, rfl, rfl⟩

end RNacos.Props.C01

/-! ## the namespace component

`RNacos/Model/Namespace.lean` models `NamespaceActor` (entries with origin flags, the four Raft requests, the weak entries
of namespaces that are merely in use, snapshot build and load).  It is executed by the `apply` driver against the node
that never stops (the served list of user namespaces is part of every dump). -/
namespace RNacos.Props.C01
open RNacos.Namespace

/-- **the snapshot round trip of the namespace component** (one of the per-component hypotheses of `restart_reproduces`,
proved): a node that starts from a snapshot serves exactly the user-created namespaces - id, name, order - of the node that
wrote it, whether or not they are also in use -/
theorem namespace_component_roundtrip (s : State) (hnd : (ids s).Nodup)
    (hsys : ∀ e ∈ s, e.1 = "" → hasFlag e.2.flag fUser = false) (hpub : ∀ e ∈ s, e.1 ≠ "public") :
    userList (loadSnapshot initial (buildSnapshot s)) = userList s :=
  namespace_snapshot_roundtrip s hnd hsys hpub

/-- kept visible (known finding F32): `AddOnly` / `Update` depend on whether the weak entry of the namespace has already
arrived from the config actor -/
theorem namespace_addOnly_order_dependent :
    userList (setWeak (apply initial (.addOnly "ns2" (some "name34"))) "ns2" fConfig) ≠
    userList (apply (setWeak initial "ns2" fConfig) (.addOnly "ns2" (some "name34"))) :=
  addOnly_depends_on_order

end RNacos.Props.C01
