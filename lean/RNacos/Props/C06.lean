import RNacos.Model.WritePath
import RNacos.Gen.WritePath
/-!
# C06 — cluster: acknowledged config writes are never lost; all nodes converge

What r-nacos adds to Raft on this path is small: routing to the leader and *telling the client the truth* about the
outcome.  This file proves the second: with every `Result` on the write path propagated – which the translator reads
off the source on every run (13 call sites and the two success exits of the router) – a client is told "success" only if Raft committed the entry, on every
route.  "Committed entries survive any minority of crashes and all nodes apply them in the same order" is Raft's
guarantee given a correct `RaftStorage` (C02–C05, C07: the log returns what was appended, truncation is exact, term /
vote / membership are durable, the three apply paths agree) and async-raft itself, which is trusted, not verified.
The convergence of a real 3-process cluster under kills and restarts is explored by `./check C06 --tier thorough`
(model `cluster`), not proved.
-/
namespace RNacos.Props.C06
open RNacos.WritePath RNacos.Gen

/-- the regenerated table: every result on the write path is propagated -/
theorem all_results_propagated : ∀ s ∈ writePathSites, s.2 = true := by decide +kernel

def sitesAllPropagated : Sites := ⟨true, true, true, true, true⟩

/-- the model's parameters as read off the source: a flag is set iff every call site of the table propagates -/
def sitesFromSource : Sites :=
  let ok := writePathSites.all (·.2)
  ⟨ok, ok, ok, ok, ok⟩

theorem source_propagates_everything : sitesFromSource = sitesAllPropagated := by decide +kernel

/-- **acknowledged ⇒ committed**, on every route, whatever happens to the request -/
theorem ack_implies_committed (r : Route) (w : World) (h : success sitesFromSource r w = true) :
    w.committed = true := by
  rw [source_propagates_everything] at h
  cases r <;> cases w with
  | mk c t => cases c <;> cases t <;> simp_all [success, actorOk, sitesAllPropagated]

/-- a write that could not be committed is answered with an error -/
theorem uncommitted_is_error (r : Route) (w : World) (h : w.committed = false) :
    success sitesFromSource r w = false := by
  cases hs : success sitesFromSource r w with
  | false => rfl
  | true => rw [ack_implies_committed r w hs] at h; cases h

/-- and nothing is refused needlessly: a committed write whose messages travelled is answered with success -/
theorem committed_is_success (w : World) (hc : w.committed = true) (ht : w.transportOk = true) :
    success sitesFromSource .localLeader w = true ∧ success sitesFromSource .remote w = true := by
  rw [source_propagates_everything]
  cases w with
  | mk c t => simp_all [success, actorOk, sitesAllPropagated]

/-- kept visible (the defect that was repaired, F27): with the raft result dropped – as the code was – a write that
Raft did not commit is answered with success -/
theorem dropped_result_acknowledges_uncommitted :
    success ⟨false, true, true, true, true⟩ .localLeader ⟨false, true⟩ = true ∧
    success ⟨true, false, true, true, true⟩ .localLeader ⟨false, true⟩ = true := by decide

/-! ### non-vacuity -/
example : success sitesAllPropagated .remote ⟨true, true⟩ = true := by decide

end RNacos.Props.C06
