import RNacos.Model.Sequence
import RNacos.Driver.Util
/-
Line protocol of model `sequence` (C19).
  db nextid <k> | db nextrange <k> <step> | db setid <k> <v> | db removeid <k>   -> id N | range S L | ok
  g new | g next | g apply <s> <l> | g need                                       -> ok | some N | none | true/false
  c new <n> <start> <batch> | c issue <i> | c restart <i> | c snap <i> | c restartsaved <i> | c ends                 -> ok | id N mark M or "-" | ok | ends e0,e1,…
-/
namespace RNacos.Driver.Sequence
open RNacos.Sequence RNacos.Driver RNacos

structure St where
  db : SeqDb := []
  g : SeqGroup := SeqGroup.new
  n : Nat := 0
  c : Cluster := fun _ => SimpleSeq.new 0 100
  sv : Nat → Option Saved := fun _ => none     -- the snapshot each node would restart from (`c snap`)

def stepC (s : St) (ws : List String) : St × String :=
  match ws with
  | ["db", "nextid", k] =>
    let r := s.db.step (.nextId k); ({ s with db := r.1 }, s!"id {r.2.1}")
  | ["db", "nextrange", k, st] =>
    match st.toNat? with
    | some n => let r := s.db.step (.nextRange k n); ({ s with db := r.1 }, s!"range {r.2.1} {r.2.2}")
    | none => (s, "bad-op")
  | ["db", "setid", k, v] =>
    match v.toNat? with
    | some n => ({ s with db := (s.db.step (.setId k n)).1 }, "ok")
    | none => (s, "bad-op")
  | ["db", "removeid", k] => ({ s with db := (s.db.step (.removeId k)).1 }, "ok")
  | ["g", "new"] => ({ s with g := SeqGroup.new }, "ok")
  | ["g", "next"] =>
    match s.g.nextId with
    | (some v, g') => ({ s with g := g' }, s!"some {v}")
    | (none, g') => ({ s with g := g' }, "none")
  | ["g", "apply", a, b] =>
    match a.toNat?, b.toNat? with
    | some x, some y => ({ s with g := s.g.applyRange x y }, "ok")
    | _, _ => (s, "bad-op")
  | ["g", "need"] => (s, if s.g.needApply then "true" else "false")
  | ["c", "new", n, st, b] =>
    match n.toNat?, st.toNat?, b.toNat? with
    | some n, some st, some b => ({ s with n := n, c := fun _ => SimpleSeq.new st b, sv := fun _ => none }, "ok")
    | _, _, _ => (s, "bad-op")
  | ["c", "issue", i] =>
    match i.toNat? with
    | some i =>
      if i < s.n then
        let mark := (s.c i).nextState.1.2
        let r := cluster2Step ⟨s.c, s.sv⟩ (.issue i)
        ({ s with c := r.1.nodes, sv := r.1.saved }, s!"id {r.2.getD 0} mark {match mark with | some m => toString m | none => "-"}")
      else (s, "bad-op")
    | none => (s, "bad-op")
  | ["c", "restart", i] =>
    match i.toNat? with
    | some i => if i < s.n then ({ s with c := (clusterStep s.c (.restart i)).1 }, "ok") else (s, "bad-op")
    | none => (s, "bad-op")
  | ["c", "snap", i] =>
    match i.toNat? with
    | some i => if i < s.n then ({ s with sv := (cluster2Step ⟨s.c, s.sv⟩ (.snapshot i)).1.saved }, "ok") else (s, "bad-op")
    | none => (s, "bad-op")
  | ["c", "restartsaved", i] =>
    match i.toNat? with
    | some i =>
      if i < s.n then
        match s.sv i with
        | some _ => ({ s with c := (cluster2Step ⟨s.c, s.sv⟩ (.restartSaved i)).1.nodes }, "ok")
        | none => (s, "nosnapshot")
      else (s, "bad-op")
    | none => (s, "bad-op")
  | ["c", "ends"] =>
    (s, "ends " ++ ",".intercalate ((List.range s.n).map fun i => toString (s.c i).endId))
  | _ => (s, "bad-op")

/-- the same cluster run on real ConfigActors (batch 100 from 0; which key is published and whether its content
changes is irrelevant to the ids; both kinds of restart leave the node at the replicated high-water mark) -/
def step (s : St) (ws : List String) : St × String :=
  match ws with
  | ["r", "new", n] => stepC s ["c", "new", n, "0", "100"]
  | ["r", "issue", i, _, _] => stepC s ["c", "issue", i]
  | ["r", "restart", i, _] => stepC s ["c", "restart", i]
  | ["r", "snap", i] => stepC s ["c", "snap", i]
  | ["r", "restartsaved", i] => stepC s ["c", "restartsaved", i]
  | ["r", "ends"] => stepC s ["c", "ends"]
  | _ => stepC s ws

/-- spec oracle state: what the implementation has handed out so far -/
structure SpecSt where
  pending : List String := []
  dbEnd : List (String × Nat) := []      -- per key: end of the last hand-out since the last reset
  gIds : List Nat := []
  cTop : Option Nat := none

def specStep (s : SpecSt) (ws : List String) : SpecSt × String :=
  match ws with
  | ">" :: ans =>
    let s0 := { s with pending := [] }
    match s.pending, ans with
    | ["db", "nextid", k], ["id", v] =>
      match v.toNat? with
      | some v =>
        let lo := (AL.get? s.dbEnd k).getD 0
        if lo ≤ v then ({ s0 with dbEnd := AL.set s.dbEnd k (v + 1) }, "spec ok")
        else (s0, s!"spec FAIL id {v} of key {k} is below an id already handed out (< {lo})")
      | none => (s0, "spec FAIL unparsable")
    | ["db", "nextrange", k, _], ["range", st, l] =>
      match st.toNat?, l.toNat? with
      | some st, some l =>
        let lo := (AL.get? s.dbEnd k).getD 0
        if lo ≤ st then ({ s0 with dbEnd := AL.set s.dbEnd k (st + l) }, "spec ok")
        else (s0, s!"spec FAIL range {st}+{l} of key {k} overlaps ids already handed out (< {lo})")
      | _, _ => (s0, "spec FAIL unparsable")
    | ["db", "setid", k, _], _ => ({ s0 with dbEnd := AL.erase s.dbEnd k }, "-")
    | ["db", "removeid", k], _ => ({ s0 with dbEnd := AL.erase s.dbEnd k }, "-")
    | ["g", "new"], _ => ({ s0 with gIds := [] }, "-")
    | ["g", "next"], ["some", v] =>
      match v.toNat? with
      | some v => if s.gIds.contains v then (s0, s!"spec FAIL id {v} handed out twice")
                  else ({ s0 with gIds := v :: s.gIds }, "spec ok")
      | none => (s0, "spec FAIL unparsable")
    | ["c", "new", _, _, _], _ => ({ s0 with cTop := none }, "-")
    | ["r", "new", _], _ => ({ s0 with cTop := none }, "-")
    | ["r", "issue", _, _, _], "id" :: v :: _ =>
      match v.toNat? with
      | some v =>
        match s.cTop with
        | some t => if t < v then ({ s0 with cTop := some v }, "spec ok")
                    else (s0, s!"spec FAIL history id {v} is not above the previous id {t}")
        | none => ({ s0 with cTop := some v }, "spec ok")
      | none => (s0, "spec FAIL unparsable")
    | ["c", "issue", _], "id" :: v :: _ =>
      match v.toNat? with
      | some v =>
        match s.cTop with
        | some t => if t < v then ({ s0 with cTop := some v }, "spec ok")
                    else (s0, s!"spec FAIL history id {v} is not above the previous id {t}")
        | none => ({ s0 with cTop := some v }, "spec ok")
      | none => (s0, "spec FAIL unparsable")
    | _, _ => (s0, "-")
  | _ => ({ s with pending := ws }, "")

end RNacos.Driver.Sequence
