import RNacos.Model.Auth
import RNacos.Props.OracleTables
import RNacos.Driver.Util
/-
Line protocols of the models `openapi` (C16), `console` and `perm` (C17).
  http <METHOD> <uri> carrier=<none|auth|bearer|header|query|body> tok=<none|empty|garbage|expired|valid> [canon=<path>]
       -> forbid | pass reached=<0|1>          (model prints `pass reached=*`)
  grpc <Type> session=<0|1> clustervalid=<0|1> [clustercfg=<0|1>]   -> servercheck | 403 | 500 | dispatched
  perm roles=<a,b,…> <METHOD> <path>                                  -> true | false
  chttp <METHOD> <uri> session=<none|empty|sess-0|sess-1|sess-2|sess-12|sess-x|sess-none|other>
       -> nologin | nopermission | served reached=<0|1>
-/
namespace RNacos.Driver.AuthDrv
open RNacos.Auth RNacos.Driver RNacos.Props.Oracle

def bytesOf (s : String) : Str := s.toUTF8.toList.map (·.toNat)

def field (ws : List String) (k : String) : String :=
  match ws.find? (·.startsWith (k ++ "=")) with
  | some w => (w.drop (k.length + 1)).toString
  | none => ""

def pathOfUri (uri : String) : String := (uri.splitOn "?").headD ""

/-- which tokens resolve to a session in the harness' node -/
def apiHasSession (t : Str) : Bool := t == bytesOf "tok-valid"

def tokenOf (t : String) : Option Str :=
  match t with
  | "none" => none
  | "" => none
  | "empty" => some []
  | "garbage" => some (bytesOf "zzz-not-a-token")
  | "expired" => some (bytesOf "tok-expired")
  | "valid" => some (bytesOf "tok-valid")
  | o => some (bytesOf o)

def httpStep (ws : List String) : String :=
  match ws with
  | "http" :: method :: uri :: rest =>
    let carrier := field rest "carrier"
    let tok := tokenOf (field rest "tok")
    let isGet := method == "GET"
    let token : Str :=
      match carrier with
      | "auth" => openapiToken tok none none none isGet
      | "bearer" => openapiToken tok none none none isGet
      | "header" => openapiToken none tok none none isGet
      | "query" => openapiToken none none tok none isGet
      | "body" => openapiToken none none none tok isGet
      | _ => []
    match openapiDecideRaw true (bytesOf (pathOfUri uri)) token apiHasSession with
    | .forbid => "forbid"
    | .pass => "pass reached=*"
  | _ => "bad-op"

def grpcStep (ws : List String) : String :=
  match ws with
  | "grpc" :: ty :: rest =>
    let cfg : Str := if field rest "clustercfg" == "1" then bytesOf "xyzw" else []
    match grpcDecide true cfg (bytesOf ty) (field rest "session" == "1") (field rest "clustervalid" == "1") with
    | .serverCheck => "servercheck"
    | .forbidden403 => "403"
    | .clusterTokenInvalid500 => "500"
    | .dispatched => "dispatched"
  | _ => "bad-op"

/-- the same through `fill_token_session` (the gRPC service object): which headers the payload carries.  The node's
cluster token is `x` when `clustercfg=1` (the harness starts it with RNACOS_CLUSTER_TOKEN=x), else none -/
def grpcsrvStep (ws : List String) : String :=
  match ws with
  | "grpcsrv" :: ty :: rest =>
    let cfg : Str := if field rest "clustercfg" == "1" then bytesOf "xyzw" else []
    let ut : Option Str := match field rest "token" with
      | "empty" => some [] | "valid" => some (bytesOf "tok-valid") | "garbage" => some (bytesOf "zzz-garbage") | _ => none
    let ch : Option Str := match field rest "ctoken" with
      | "empty" => some [] | "prefix" => some (cfg.take (cfg.length / 2)) | "exact" => some cfg
      | "longer" => some (cfg ++ bytesOf "x") | "garbage" => some (List.replicate (max cfg.length 1) 113) | _ => none
    let f := grpcFill true ut apiHasSession cfg ch
    -- the service object first looks the connection up among the registered bi-streams (`ActiveClinet`); the harness'
    -- connection has none: every type outside `ignore_active_err` (= server check + the cluster types) is refused with 301
    if !(Gen.grpcCluster.contains (bytesOf ty) || bytesOf ty == Gen.grpcServerCheck) then "301" else
    match grpcDecide true cfg (bytesOf ty) f.1 f.2 with
    | .serverCheck => "servercheck"
    | .forbidden403 => "403"
    | .clusterTokenInvalid500 => "500"
    | .dispatched => "dispatched"
  | _ => "bad-op"

def unE (s : String) : String := if s == "EMPTY" then "" else s

def permStep (ws : List String) : String :=
  match ws with
  | ["perm", roles, method, path] =>
    let rs := (((roles.drop 6).toString.splitOn ",").filter (· ≠ "")).map fun r => bytesOf (unE r)
    if rolesMatch rs (bytesOf (unE path)) (bytesOf (unE method)) then "true" else "false"
  | _ => "bad-op"

def sessionRoles (t : Str) : Option (List Str) :=
  if t == bytesOf "sess-0" then some [bytesOf "0"]
  else if t == bytesOf "sess-1" then some [bytesOf "1"]
  else if t == bytesOf "sess-2" then some [bytesOf "2"]
  else if t == bytesOf "sess-12" then some [bytesOf "1", bytesOf "2"]
  else if t == bytesOf "sess-x" then some [bytesOf "9"]
  else if t == bytesOf "sess-none" then some []
  else none

def chttpStep (ws : List String) : String :=
  match ws with
  | "chttp" :: method :: uri :: rest =>
    let s := field rest "session"
    let token : Str := if s == "none" || s == "" || s == "empty" then [] else bytesOf s
    match consoleDecide (bytesOf (pathOfUri uri)) (bytesOf method) token sessionRoles with
    | .noLogin => "nologin"
    | .noPermission => "nopermission"
    | .served => "served reached=*"
  | _ => "bad-op"

def step (_ : Unit) (ws : List String) : Unit × String :=
  match ws.headD "" with
  | "http" => ((), httpStep ws)
  | "grpc" => ((), grpcStep ws)
  | "grpcsrv" => ((), grpcsrvStep ws)
  | "perm" => ((), permStep ws)
  | "chttp" => ((), chttpStep ws)
  | _ => ((), "bad-op")

/-! spec oracles (fed with the implementation's answers) -/

def containsCIstr (needle : String) (s : Str) : Bool := containsCI (bytesOf needle) s

/-- C16: a request that reaches a handler of an endpoint under the API prefixes (named by `canon`,
the canonical spelling the generator started from) without a valid token must have been refused -/
def specOpenapi (op ans : List String) : String :=
  match op with
  | "http" :: _ :: _ :: rest =>
    let canon := bytesOf (field rest "canon")
    let tok := field rest "tok"
    let carrier := field rest "carrier"
    let validPresented := tok == "valid" && carrier != "none" && carrier != ""
    let under := containsCIstr "/nacos/" canon || containsCIstr "/rnacos/v1/" canon
    if canon.isEmpty || !under || openapiExceptions.contains canon || validPresented then "-"
    else match ans with
      | ["forbid"] => "spec ok"
      | ["pass", "reached=0"] => "spec ok"
      | _ => s!"spec FAIL data endpoint {field rest "canon"} reached without a valid token"
  | "grpcsrv" :: ty :: rest =>
    -- through the service object: the session comes from the user token header, the cluster authentication from the
    -- cluster token header - and only the configured token itself authenticates
    let t := bytesOf ty
    if field rest "token" == "valid" then "-"
    else if grpcDataTypes.contains t then
      (if ans == ["403"] || ans == ["301"] then "spec ok" else s!"spec FAIL gRPC data request {ty} not refused without a valid token")
    else if grpcClusterTypes.contains t && field rest "clustercfg" == "1" && field rest "ctoken" != "exact" then
      (if ans == ["500"] || ans == ["403"] then "spec ok"
       else s!"spec FAIL cluster request {ty} accepted with cluster token '{field rest "ctoken"}' (not the configured one)")
    else "-"
  | "grpc" :: ty :: rest =>
    let t := bytesOf ty
    if field rest "session" == "1" then "-"
    else if grpcDataTypes.contains t then
      (if ans == ["403"] then "spec ok" else s!"spec FAIL gRPC data request {ty} not refused without a session")
    else if grpcClusterTypes.contains t && field rest "clustercfg" == "1" && field rest "clustervalid" != "1" then
      (if ans == ["500"] || ans == ["403"] then "spec ok" else s!"spec FAIL cluster request {ty} accepted without the cluster token")
    else "-"
  | _ => "-"

def baseNameOf (h : Str) : Str := (h.reverse.takeWhile (· ≠ 58)).reverse

def containsSubB (needle : Str) : Str → Bool
  | [] => needle.isEmpty
  | b :: bs => needle.isPrefixOf (b :: bs) || containsSubB needle bs

/-- the hand-written classification of handlers (DESIGN.md App. C) -/
def handlerMutating (h method : Str) : Bool :=
  let bn := baseNameOf h
  if sessionHandlers.contains bn then false
  else if mutatingPrefixes.any (·.isPrefixOf bn) then true
  else if readonlyPrefixes.any (·.isPrefixOf bn) then false
  else method != methodGet

def handlerAdminOnly (h : Str) : Bool :=
  adminOnlyHandlers.contains (baseNameOf h) || transferMarkers.any (containsSubB · h)

/-- C17 (HTTP level): an API route outside the login exceptions is never served without a session, a
session without any known role reaches nothing, a visitor reaches no mutating handler, a developer no
user-management / transfer handler -/
def specConsole (op ans : List String) : String :=
  match op with
  | "chttp" :: method :: uri :: rest =>
    let s := field rest "session"
    let h := bytesOf (field rest "h")
    let path := bytesOf (pathOfUri uri)
    let isApi := containsCIstr "/rnacos/api/console/" path
    let roles := sessionRoles (if s == "none" || s == "" || s == "empty" then [] else bytesOf s)
    let servedReached := ans == ["served", "reached=1"]
    if !isApi || consoleLoginExceptions.contains path then "-"
    else match roles with
      | none =>
        (match ans with
         | ["nologin"] => "spec ok"
         | ["served", "reached=0"] => "spec ok"
         | _ => s!"spec FAIL console API {uri} served without a session")
      | some rs =>
        let known := rs.filter fun r => r == roleManager || r == roleDeveloper || r == roleVisitor
        if known.isEmpty then
          (if servedReached then s!"spec FAIL console API {uri} served to a session without any granted role" else "spec ok")
        else if h.isEmpty then "-"
        else if !(known.contains roleManager) && !(known.contains roleDeveloper) && handlerMutating h (bytesOf method) then
          (if servedReached then s!"spec FAIL a visitor reached the mutating handler {field rest "h"}" else "spec ok")
        else if !(known.contains roleManager) && handlerAdminOnly h then
          (if servedReached then s!"spec FAIL a developer/visitor reached the admin-only handler {field rest "h"}" else "spec ok")
        else "-"
  | _ => "-"

/-- C17 (decision function): role sets without a known role grant nothing -/
def specPerm (op ans : List String) : String :=
  match op with
  | ["perm", roles, _, _] =>
    let rs := (((roles.drop 6).toString.splitOn ",").filter (· ≠ "")).map fun r => bytesOf (unE r)
    let known := rs.filter fun r => r == roleManager || r == roleDeveloper || r == roleVisitor
    if known.isEmpty then (if ans == ["false"] then "spec ok" else "spec FAIL a role set without any known role was granted a route")
    else "-"
  | _ => "-"

structure SpecSt where
  pending : List String := []

def specStep (f : List String → List String → String) (s : SpecSt) (ws : List String) : SpecSt × String :=
  match ws with
  | ">" :: ans => ({ pending := [] }, f s.pending ans)
  | _ => ({ pending := ws }, "")

end RNacos.Driver.AuthDrv
