import RNacos.Driver.Util
/-
Line protocol of model `ack` (C06, in-process): pub <key> <content> | del <key> | get <key> | closewrite
The model is the specification of a standalone node: a map from key to content that changes exactly when a write is
committed; after `closewrite` nothing can be committed.
-/
namespace RNacos.Driver.AckDrv
open RNacos.Driver

structure St where
  kv : List (String × String) := []
  closed : Bool := false

def step (s : St) (ws0 : List String) : St × String :=
  -- `rpub` / `rdel`: the same write arriving at the leader as a forwarded request (handle_route)
  let ws := match ws0 with | ["rpub", k, c] => ["pub", k, c] | ["rdel", k] => ["del", k] | w => w
  match ws with
  | ["pub", k, c] =>
    if s.closed then (s, "err") else ({ s with kv := (k, c) :: s.kv.filter (·.1 != k) }, "ok")
  | ["del", k] => if s.closed then (s, "err") else ({ s with kv := s.kv.filter (·.1 != k) }, "ok")
  | ["get", k] => (s, match s.kv.find? (·.1 == k) with | some (_, c) => s!"val {c}" | none => "none")
  | ["closewrite"] => ({ s with closed := true }, "ok")
  | _ => (s, "bad-op")

/-- the oracle: what was acknowledged is served; what is served was acknowledged -/
structure SpecSt where
  pending : List String := []
  acked : List (String × Option String) := []     -- key -> content of the last acknowledged write (none = removed)
  tried : List (String × String) := []            -- every (key, content) ever submitted

def specStep (s : SpecSt) (ws : List String) : SpecSt × String :=
  match ws with
  | ">" :: ans =>
    let s0 := { s with pending := [] }
    match (match s.pending with | ["rpub", k, c] => ["pub", k, c] | ["rdel", k] => ["del", k] | p => p) with
    | ["pub", k, c] =>
      let s1 := { s0 with tried := (k, c) :: s.tried }
      if ans == ["ok"] then ({ s1 with acked := (k, some c) :: s.acked.filter (·.1 != k) }, "spec ok") else (s1, "-")
    | ["del", k] =>
      if ans == ["ok"] then ({ s0 with acked := (k, none) :: s.acked.filter (·.1 != k) }, "spec ok") else (s0, "-")
    | ["get", k] =>
      match s.acked.find? (·.1 == k), ans with
      | some (_, some c), ["val", v] =>
        if v == c then (s0, "spec ok") else (s0, s!"spec FAIL the acknowledged content '{c}' is not served (got '{v}')")
      | some (_, some c), _ => (s0, s!"spec FAIL the acknowledged content '{c}' is not served")
      | some (_, none), ["val", v] => (s0, s!"spec FAIL an acknowledged removal is not in effect (got '{v}')")
      | none, ["val", v] =>
        if s.tried.contains (k, v) then (s0, "spec ok") else (s0, s!"spec FAIL content '{v}' was never submitted")
      | _, _ => (s0, "spec ok")
    | _ => (s0, "-")
  | _ => ({ s with pending := ws }, "")

end RNacos.Driver.AckDrv
