import RNacos.Model.Namespace
import RNacos.Model.Components
import RNacos.Driver.Util
/-
Line protocol of model `apply` (C07/C01): three complete nodes fed the same committed requests.
The components' behaviour is not modelled (it is arbitrary in the theorems); the model answers with wildcards and
the specification oracle judges the relation the properties state: the three nodes' dumps are equal.
-/
namespace RNacos.Driver.ApplyDrv
open RNacos.Driver

/-- the model's state: three components of the node that never stops (`L`), driven by the committed requests: the
namespaces, the replicated sequences, the tables.  (The other components are parameters of the theorems; their dumps
are wildcards.) -/
structure MSt where
  ns : RNacos.Namespace.State := RNacos.Namespace.initial
  seq : RNacos.Sequence.SeqDb := []
  tbl : RNacos.Components.Tables := []

def nsId (a : Nat) : String := s!"ns{a % 5}"

/-- the namespace request that `mkreq` builds for a generated request -/
def nsReq (kind : String) (a b : Nat) : Option RNacos.Namespace.Req :=
  match kind with
  | "nsset" => some (.set (nsId a) (some s!"name{b}"))
  | "nsadd" => some (.addOnly (nsId a) (some s!"name{b}"))
  | "nsupd" => some (.update (nsId a) (some s!"name{b}"))
  | "nsdel" => some (.delete (nsId a))
  | _ => none

/-- the sequence request that `mkreq` builds -/
def seqReq (kind : String) (a b : Nat) : Option RNacos.Sequence.DbOp :=
  match kind with
  | "seqnext" => some (.nextId s!"seq{a % 3}")
  | "seqrange" => some (.nextRange s!"seq{a % 3}" (b % 20 + 1))
  | "seqset" => some (.setId s!"seq{a % 3}" (1000 + b))
  | "seqrm" => some (.removeId s!"seq{a % 3}")
  | _ => none

def strBytes (s : String) : List Nat := s.toUTF8.toList.map (·.toNat)

/-- the table request that `mkreq` builds -/
def tblReq (kind : String) (a b : Nat) : Option RNacos.Components.TblReq :=
  let t := if a % 2 == 0 then "T_USER" else "T_CACHE"
  match kind with
  | "tblset" => some (.set t (strBytes s!"k{a % 6}") (strBytes s!"val-{b}"))
  | "tblrm" => some (.remove t (strBytes s!"k{a % 6}"))
  | "tbldrop" => some (.drop t)
  | "tblnext" => some (.nextId t)
  | "tblseq" => some .other
  | "tblauto" => some .other
  | _ => none

/-- what the node serves for user namespaces, as the harness prints it: hash of the sorted `id:name` list, `#`, count -/
def nsDump (s : RNacos.Namespace.State) : String :=
  let l := ((RNacos.Namespace.userList s).map fun e => s!"{e.1}:{e.2}").mergeSort (· ≤ ·)
  s!"{fnvStr (";".intercalate l)}#{l.length}"

def hexBytes (bs : List Nat) : String := String.join (bs.map hexOfNat)

/-- the `T_SEQUENCE` records of the sequence component as the harness prints them: `name=hex(id_to_bin value)` -/
def seqDump (db : RNacos.Sequence.SeqDb) : String :=
  let l := ((RNacos.Components.seqBuild db).map fun r => s!"{r.key}={hexBytes r.value}").mergeSort (· ≤ ·)
  s!"{fnvStr (";".intercalate l)}#{l.length}"

/-- the `T_USER` / `T_CACHE` records: `tree/hex(key)=hex(value)` -/
def tblDump (ts : RNacos.Components.Tables) : String :=
  let l := ((RNacos.Components.tblBuild ts).map fun r => s!"{r.tree}/{hexBytes r.key}={hexBytes r.value}").mergeSort (· ≤ ·)
  s!"{fnvStr (";".intercalate l)}#{l.length}"

def step (s : MSt) (ws : List String) : MSt × String :=
  match ws with
  | ["start"] => ({}, "ok")
  | ["req", kind, a, b] =>
    let an := a.toNat?.getD 0
    let bn := b.toNat?.getD 0
    match seqReq kind an bn with
    | some op =>
      -- the leader path answers a hand-out with the ids (`SequenceRaftResult`)
      let (db', start, len) := s.seq.step op
      let ans := match op with
        | .nextId _ => s!"ok:id{start}"
        | .nextRange _ _ => s!"ok:r{start}+{len}"
        | _ => "ok"
      ({ s with seq := db' }, s!"req L={ans} F=queued R=*")
    | none =>
    match tblReq kind an bn with
    | some r => ({ s with tbl := s.tbl.apply r }, "req L=* F=queued R=*")
    | none =>
    let ns' := match nsReq kind an bn with
      | some r => RNacos.Namespace.apply s.ns r
      | none =>
        -- a publish into the tenant of a user namespace (`mkreq`: every third one) makes the config actor announce the
        -- namespace as in use: on the leader path (every request awaited) that has happened before the next request
        if (kind == "cfgset" || kind == "cfgfull" || kind == "cfgbig" || kind == "cfgempty") && bn % 3 == 2 then RNacos.Namespace.setWeak s.ns (nsId an) RNacos.Namespace.fConfig
        else s.ns
    ({ s with ns := ns' }, "req L=* F=queued R=*")
  | "req" :: _ => (s, "req L=* F=queued R=*")
  | "reqd" :: _ => (s, "reqd id=* mark=* L=* F=queued R=*")
  | "flush" :: _ => (s, "flush *")
  | ["compact", _] => (s, "compact ok")
  | ["halfcompact", _] => (s, "halfcompact ok")
  | ["restart", _] => (s, "restarted ready applied=* next=*")
  | ["crash", _] => (s, "restarted ready applied=* next=*")
  | ["dump"] => (s, s!"dump nsL={nsDump s.ns} sqL={seqDump s.seq} tbL={tblDump s.tbl} L=* F=* R=*")
  | ["dumpn"] => (s, "dumpn behind=* LM=* NM=* L=* N=*")
  | ["install", _, _] => (s, "install *")
  | ["catchup", _] => (s, "catchup ok")
  | _ => (s, "bad-op")

structure SpecSt where
  pending : List String := []
  queued : Nat := 0          -- requests handed to the follower node but not yet replicated (`flush`)
  drawn : Nat := 0           -- the last history id a node drew for a publish (`reqd`)

def field (ans : List String) (k : String) : String :=
  match ans.find? (·.startsWith (k ++ "=")) with
  | some w => (w.drop (k.length + 1)).toString
  | none => ""

/-- the served state in a node's dump: everything but the applied-index bookkeeping (a request whose apply fails
on every node is counted as applied in memory but not on disk; what is *served* is unaffected) -/
def served (d : String) : String := ";".intercalate ((d.splitOn ";").filter fun p => !p.startsWith "la=")

def specStep (s : SpecSt) (ws : List String) : SpecSt × String :=
  match ws with
  | [">", "bad-op"] => ({ s with pending := [] }, "-")     -- the nodes are not running: not a statement about them
  | ">" :: ans =>
    let s0 : SpecSt := { s with pending := [] }
    match s.pending with
    | ["start"] => ({ s0 with queued := 0 }, if ans == ["ok"] then "spec ok" else "spec FAIL the nodes do not start")
    | "req" :: _ =>
      -- the leader path and the node that is restarted answer alike
      if field ans "L" == field ans "R" then ({ s0 with queued := s.queued + 1 }, "spec ok")
      else ({ s0 with queued := s.queued + 1 }, s!"spec FAIL the same request is answered {field ans "L"} and {field ans "R"} by two nodes in the same state")
    | "reqd" :: _ =>
      -- the history id was drawn by a node's own sequence (as a leader does): never one that was drawn before (C19/C01)
      let id := (field ans "id").toNat?.getD 0
      let s1 : SpecSt := { s0 with queued := s.queued + 1, drawn := max s.drawn id }
      if ans.head? != some "reqd" || field ans "id" == "" then (s0, "-")
      else if id ≤ s.drawn then (s1, s!"spec FAIL history id {id} drawn after {s.drawn}: an id is handed out twice")
      else if field ans "L" == field ans "R" then (s1, "spec ok")
      else (s1, s!"spec FAIL the same request is answered {field ans "L"} and {field ans "R"} by two nodes in the same state")
    | ["restart", _] =>
      (s0, if ans.head? == some "restarted" then "spec ok" else "spec FAIL the node does not restart from its data directory")
    | ["crash", _] =>
      (s0, if ans.head? == some "restarted" then "spec ok" else "spec FAIL the node does not restart from its data directory")
    | ["compact", _] => (s0, if ans == ["compact", "ok"] then "spec ok" else "spec FAIL log compaction fails")
    | "flush" :: _ => ({ s0 with queued := 0 }, "-")
    | ["install", _, _] =>
      -- "nosnapshot": the leader has not compacted yet, nothing to install (not a failure of the node)
      (s0, if ans == ["install", "ok"] || ans == ["install", "nosnapshot"] then "spec ok" else "spec FAIL the snapshot cannot be installed")
    | ["catchup", _] => (s0, if ans == ["catchup", "ok"] then "spec ok" else "spec FAIL the entries after the snapshot are not accepted")
    | ["dumpn"] =>
      -- the late joiner after installation (+ restart): the served state without the log bookkeeping
      let strip (d : String) : String := ";".intercalate ((d.splitOn ";").filter fun p => !p.startsWith "la=" && !p.startsWith "ll=")
      let l := strip (field ans "L"); let nn := strip (field ans "N")
      if field ans "behind" != "0" then (s0, "-")      -- the joiner has not been sent everything yet: nothing to compare
      else if field ans "LM" != field ans "NM" then
        (s0, s!"spec FAIL the node caught up by snapshot installation holds membership {field ans "NM"}, the leader {field ans "LM"} (C08)")
      else if l == nn then (s0, "spec ok")
      else (s0, "spec FAIL the node caught up by snapshot installation does not serve the leader's data (C08)")
    | ["dump"] =>
      let l := served (field ans "L"); let f := served (field ans "F"); let r := served (field ans "R")
      if l == "" || l.startsWith "dead" || l.startsWith "down" then (s0, "spec FAIL no dump")
      else if s.queued == 0 && l != f then (s0, "spec FAIL follower replication path differs from the leader apply path (C07)")
      else if l != r then (s0, "spec FAIL state after compaction/restart (snapshot + replay) differs from the state served before (C01/C07)")
      else (s0, "spec ok")
    | _ => (s0, "-")
  | _ => ({ s with pending := ws }, "")

end RNacos.Driver.ApplyDrv
