import RNacos.Model.LogFile
import RNacos.Driver.Util
/-
Line protocol of model `logfile` (C02/C03, one log file = `LogInnerManager`).
  open <start> <preTerm> <split> [geom=<interval>,<area>] | reopen [<start> <preTerm> <split>]   -> ok end=<e> term=<t>
  w <index> <term> <len> <seed>     -> ok | toend | full | idxerr
  strip <k>                         -> ok | err
  read <a> <b>                      -> recs n=<n> <i:t:len:fnv>…  | err
  last                              -> last <index> <term>
  state                             -> state end=<e> len=<fileLen> h=<fnv of the file without trailing zeros>
-/
namespace RNacos.Driver.LogDrv
open RNacos.LogFile RNacos.Driver

structure St where
  disk : List Nat := []
  fileLen : Nat := 0
  params : Nat × Nat × Nat := (1, 0, 0)
  mem : Option LogFile := none

def value (len seed : Nat) : List Nat := (List.range len).map fun j => (seed * 131 + j * 17) % 256

def showRec (r : Rec) : String := s!"{r.index}:{r.term}:{r.value.length}:{fnv r.value}"

def trimZeros (bs : List Nat) : List Nat := (bs.reverse.dropWhile (· == 0)).reverse

def n (s : String) : Nat := s.toNat?.getD 0

def doOpen (st : St) (p : Nat × Nat × Nat) (geom : Nat × Nat := (128, 4096)) : St × String :=
  let f := init st.disk st.fileLen p.1 p.2.1 p.2.2 geom.1 geom.2
  ({ disk := f.bytes, fileLen := f.fileLen, params := p, mem := some f }, s!"ok end={endIndex f} term={f.lastTerm}")

def withMem (st : St) (g : LogFile → St × String) : St × String :=
  match st.mem with
  | none => (st, "closed")
  | some f => g f

def step (st : St) (ws : List String) : St × String :=
  match ws with
  | ["open", a, b, c] => doOpen st (n a, n b, n c)
  | ["open", a, b, c, g] =>
    match ((g.drop 5).toString.splitOn ",").map n with
    | [i, e] => doOpen st (n a, n b, n c) (i, e)
    | _ => (st, "bad-op")
  | ["reopen", a, b, c] => doOpen st (n a, n b, n c)
  | ["reopen"] => doOpen st st.params
  | ["w", i, t, l, sd] => withMem st fun f =>
    let (f2, m) := write f ⟨n i, n t, value (n l) (n sd)⟩
    ({ st with disk := f2.bytes, fileLen := f2.fileLen, mem := some f2 },
      match m with | .success => "ok" | .successToEnd => "toend" | .failure => "full" | .indexEqualError => "idxerr")
  | ["strip", k] => withMem st fun f =>
    match strip f (n k) with
    | some f2 => ({ st with disk := f2.bytes, fileLen := f2.fileLen, mem := some f2 }, "ok")
    | none => (st, "err")
  | ["read", a, b] => withMem st fun f =>
    match readRecords f (n a) (n b) with
    | some rs =>
      -- the data handle has moved unless the range was empty
      let moved := decide (max (n a) f.splitOff < min (n b) (endIndex f))
      ({ st with mem := some { f with needSeek := f.needSeek || moved } },
        s!"recs n={rs.length}" ++ String.join (rs.map fun r => " " ++ showRec r))
    | none => (st, "err")
  | ["last"] => withMem st fun f => (st, s!"last {(lastInfo f).1} {(lastInfo f).2}")
  | ["state"] => withMem st fun f =>
    (st, s!"state end={endIndex f} len={f.fileLen} h={fnv (trimZeros f.bytes)}")
  | _ => (st, "bad-op")

/-! spec oracle: the log is the list of acknowledged entries, cut by every truncation -/
structure SpecSt where
  pending : List String := []
  start : Nat := 1
  preTerm : Nat := 0
  split : Nat := 0
  entries : List (Nat × Nat × Nat × Nat) := []    -- index, term, len, fnv

def kvv (ws : List String) (k : String) : String :=
  match ws.find? (·.startsWith (k ++ "=")) with
  | some w => (w.drop (k.length + 1)).toString
  | none => ""

def specOp (s : SpecSt) (op ans : List String) : SpecSt × String :=
  let endI := s.start + s.entries.length
  let checkOpen (s : SpecSt) : SpecSt × String :=
    let e := kvv ans "end"
    let t := kvv ans "term"
    let endI := s.start + s.entries.length
    if ans.head? != some "ok" then (s, "spec FAIL the log does not open")
    else if n e != endI then (s, s!"spec FAIL end of log {e} after opening, acknowledged entries end at {endI}")
    else match s.entries.getLast? with
      | some (i, tm, _, _) =>
        if i ≥ s.split && n t != tm then (s, s!"spec FAIL last term {t}, last acknowledged entry has term {tm}")
        else (s, "spec ok")
      | none => (s, "spec ok")
  match op with
  | ["open", a, b, c] => checkOpen { s with start := n a, preTerm := n b, split := max (n c) (n a) }
  | ["open", a, b, c, _] => checkOpen { s with start := n a, preTerm := n b, split := max (n c) (n a) }
  | ["reopen", a, b, c] => checkOpen { s with start := n a, preTerm := n b, split := max (n c) (n a) }
  | ["reopen"] => checkOpen s
  | ["w", i, t, l, sd] =>
    if ans == ["ok"] || ans == ["toend"] then
      if n i != endI then (s, s!"spec FAIL append at {i} accepted, the log ends at {endI}")
      else ({ s with entries := s.entries ++ [(n i, n t, n l, fnv (value (n l) (n sd)))] }, "spec ok")
    else if ans == ["idxerr"] then
      if n i == endI then (s, s!"spec FAIL contiguous append at {i} rejected") else (s, "spec ok")
    else (s, "-")
  | ["strip", k] =>
    if ans == ["ok"] then
      ({ s with entries := if n k ≥ s.start then s.entries.take (n k - s.start) else s.entries }, "spec ok")
    else if n k < s.start then (s, "spec ok") else (s, "spec FAIL truncation failed")
  | ["read", a, b] =>
    let lo := max (n a) s.split
    let hi := min (n b) endI
    let want := s.entries.filter fun e => lo ≤ e.1 && e.1 < hi
    let wantS := s!"recs n={want.length}" ++ String.join (want.map fun e => s!" {e.1}:{e.2.1}:{e.2.2.1}:{e.2.2.2}")
    (s, if " ".intercalate ans == wantS then "spec ok" else s!"spec FAIL entries returned differ from the acknowledged ones: want [{wantS}]")
  | ["last"] =>
    match ans, s.entries.getLast? with
    | ["last", i, t], some (li, lt, _, _) =>
      if n i != li then (s, s!"spec FAIL last index {i}, want {li}")
      else if li ≥ s.split && n t != lt then (s, s!"spec FAIL last term {t}, want {lt}")
      else (s, "spec ok")
    | ["last", i, _], none =>
      (s, if n i == s.start - 1 then "spec ok" else s!"spec FAIL last index {i} on an empty log starting at {s.start}")
    | _, _ => (s, "spec FAIL no answer")
  | _ => (s, "-")

def specStep (s : SpecSt) (ws : List String) : SpecSt × String :=
  match ws with
  | [">", "closed"] => ({ s with pending := [] }, "-")     -- nothing is open: not a statement about the log
  | ">" :: ans => specOp { s with pending := [] } s.pending ans
  | _ => ({ s with pending := ws }, "")

end RNacos.Driver.LogDrv
