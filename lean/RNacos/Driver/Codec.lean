import RNacos.Model.BufReader
import RNacos.Model.FileReader
import RNacos.Spec.Stream
import RNacos.Driver.Util
/-
Line protocol of model `codec` (C20).
  w <u64>                -> w <hex> size=<n> back=<v|err>
  r <bytes> <off>        -> ok <v> | err toolong | panic
  new | newdata <bytes> <start> | app <bytes> | next | empty
  drain <chunk> <chunk>… -> msgs n=<count> lens=<l1,l2,…> h=<fnv of concatenation> hung=<0|1>
  scan <count> <chunk>…  -> scan cur=<bytes> c=<count> hung=<0|1>
-/
namespace RNacos.Driver.Codec
open RNacos.Varint RNacos.BufReader RNacos.FileReader RNacos.Driver RNacos.Spec.Stream

def showRead : Except VErr Nat → String
  | .ok v => s!"ok {v}"
  | .error .tooLong => "err toolong"
  | .error .oob => "panic"

def showMsgs (ms : List (List Nat)) (hung : Bool) : String :=
  let lens := ",".intercalate (ms.map (toString ·.length))
  s!"msgs n={ms.length} lens={lens} h={fnv ms.flatten} hung={if hung then 1 else 0}"

def parseChunks (toks : List String) : Option (List (List Nat)) := toks.mapM parseBytes

def step (r : BufReader) (ws : List String) : BufReader × String :=
  match ws with
  | ["w", n] =>
    match n.toNat? with
    | some v =>
      if v < 2 ^ 64 then
        let bs := vwrite v
        (r, s!"w {toHex bs} size={vsizeof v} back={showRead (vread bs 0)}")
      else (r, "bad-op")
    | none => (r, "bad-op")
  | ["r", bs, off] =>
    match parseBytes bs, off.toNat? with
    | some b, some o => (r, showRead (vread b o))
    | _, _ => (r, "bad-op")
  | ["new"] => (new, "ok")
  | ["newdata", bs, st] =>
    match parseBytes bs, st.toNat? with
    | some b, some s => if s ≤ b.length then (newWithData b s, "ok") else (r, "panic")
    | _, _ => (r, "bad-op")
  | ["app", bs] =>
    match parseBytes bs with
    | some b => (appendNextBuf r b, "ok")
    | none => (r, "bad-op")
  | ["next"] =>
    match nextMessageVec r with
    | (none, r') => (r', "none")
    | (some v, r') => (r', s!"some {toHex v}")
  | ["empty"] => (r, if isEmpty r then "true" else "false")
  | "drain" :: cs =>
    match parseChunks cs with
    | some chunks =>
      let (ms, r', hung) := drainAll new chunks
      (r', showMsgs ms hung)
    | none => (r, "bad-op")
  | "scan" :: cnt :: cs =>
    match cnt.toNat?, parseChunks cs with
    | some count, some chunks =>
      let (cur, c, hung) := scanCount new chunks 0 0 count
      (r, s!"scan cur={cur} c={c} hung={if hung then 1 else 0}")
    | _, _ => (r, "bad-op")
  | ["scanfile", bs] =>
    match parseBytes bs with
    | some stream =>
      let (cur, c, hung) := scanCount new (fileChunks 1024 (stream.length + 1) stream) 0 0 0xffff
      (r, s!"scan cur={cur} c={c} hung={if hung then 1 else 0}")
    | none => (r, "bad-op")
  | ["fnext", bs, st, cnt] =>
    match parseBytes bs, st.toNat?, cnt.toNat? with
    | some b, some s, some c => (r, showMsgs (readAll c ⟨b, s⟩) false)
    | _, _, _ => (r, "bad-op")
  | ["fpos", bs, st, idx] =>
    match parseBytes bs, st.toNat?, idx.toNat? with
    | some b, some s, some i =>
      match readIndexPosition i ⟨b, s⟩ with
      | some ((p, l), _) => (r, s!"pos {p} {l}")
      | none => (r, "err")
    | _, _, _ => (r, "bad-op")
  | _ => (r, "bad-op")

/-- The spec oracle: what the property demands for this op, independent of buffers and chunks
(`-` = the spec has no opinion on this op). -/
def spec (ws : List String) : String :=
  match ws with
  | ["w", n] =>
    match n.toNat? with
    | some v => if v < 2 ^ 64 then s!"w * size={(vwrite v).length} back=ok {v}" else "-"
    | none => "-"
  | "drain" :: cs =>
    match parseChunks cs with
    | some chunks =>
      let s := chunks.flatten
      showMsgs (specDecode s.length s) false
    | none => "-"
  | "scan" :: cnt :: cs =>
    match cnt.toNat?, parseChunks cs with
    | some count, some chunks =>
      let s := chunks.flatten
      let ms := (specDecode s.length s).take count
      s!"scan cur={ms.flatten.length} c={ms.length} hung=0"
    | _, _ => "-"
  | ["scanfile", bs] =>
    match parseBytes bs with
    | some s =>
      let ms := (specDecode s.length s).take 0xffff
      s!"scan cur={ms.flatten.length} c={ms.length} hung=0"
    | none => "-"
  | ["fnext", bs, st, cnt] =>
    match parseBytes bs, st.toNat?, cnt.toNat? with
    | some b, some s, some c =>
      let t := b.drop s
      showMsgs ((specDecode t.length t).take c) false
    | _, _, _ => "-"
  | ["fpos", bs, st, idx] =>
    match parseBytes bs, st.toNat?, idx.toNat? with
    | some b, some s, some i =>
      let t := b.drop s
      let ms := specDecode t.length t
      if i < ms.length then
        s!"pos {s + ((ms.take i).flatten.length)} {(ms.getD i []).length}"
      else "err"
    | _, _, _ => "-"
  | _ => "-"

end RNacos.Driver.Codec
