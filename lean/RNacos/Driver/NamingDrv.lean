import RNacos.Model.Naming
import RNacos.Model.NamingSnap
import RNacos.Driver.Util
/-
Line protocol of model `naming` (C11, C12, C13).  Service keys are `ns|group|name` (`-` = empty).
  upd svc=<k> ip=<ip> port=<n> eph=<0|1> grpc=<0|1> fc=<n> cid=<-|id> healthy=<0|1> en=<0|1> w=<permille>
      tag=<-|none|letters of w m e p u> sync=<0|1> now=<ms>
  del svc= ip= port= cid=<-|id> now= | rmclient <cid> now= | rmclientc <cid> now= | timecheck now=
  rmservice svc= now= | range now= | setprotect svc= p=<permille>
  list svc= ho=<0|1> | all svc= | info | clients | audit
  updbatch now= | <inst> | <inst> …   delbatch now= | <inst> | …   rmclients <cid>… now=     (what a peer's sync sends)
  ipage svc= ho= size= idx=   selectone svc=   probe svc= ip= port= ok=<0|1> now=
-/
namespace RNacos.Driver.NamingDrv
open RNacos RNacos.Naming RNacos.Driver

def kv (ws : List String) (k : String) : String :=
  match ws.find? (·.startsWith (k ++ "=")) with
  | some w => (w.drop (k.length + 1)).toString
  | none => ""

def fld (s : String) : String := if s == "-" then "" else s

def parseSKey (s : String) : SKey :=
  match s.splitOn "|" with
  | [a, b, c] => ⟨fld a, fld b, fld c⟩
  | _ => ⟨s, "", ""⟩

def instOf (ws : List String) : Inst :=
  { ip := kv ws "ip", port := (kv ws "port").toNat?.getD 0, weight := (kv ws "w").toNat?.getD 1000,
    enabled := kv ws "en" != "0", healthy := kv ws "healthy" != "0", ephemeral := kv ws "eph" != "0",
    fromGrpc := kv ws "grpc" == "1", fromCluster := (kv ws "fc").toNat?.getD 0, clientId := fld (kv ws "cid") }

def tagOf (s : String) : Option Tag :=
  if s == "-" || s == "" then none
  else if s == "none" then some ⟨false, false, false, false, false⟩
  else some ⟨s.contains 'w', s.contains 'm', s.contains 'e', s.contains 'p', s.contains 'u'⟩

def b01 (b : Bool) : String := if b then "1" else "0"

def showInst (i : Inst) (full : Bool) : String :=
  if full then
    s!"{i.ip}:{i.port}:h{b01 i.healthy}:e{b01 i.enabled}:p{b01 i.ephemeral}:w{i.weight}:g{b01 i.fromGrpc}:fc{i.fromCluster}:c{if i.clientId.isEmpty then "-" else i.clientId}:lm{i.lastModified}"
  else s!"{i.ip}:{i.port}:h{b01 i.healthy}:e{b01 i.enabled}:p{b01 i.ephemeral}:w{i.weight}"

def joinOrDash (l : List String) : String := if l.isEmpty then "-" else ",".intercalate l
def sorted (l : List String) : List String := l.mergeSort (· ≤ ·)

def skeyStr (k : SKey) : String := s!"{k.ns}/{k.group}/{k.service}"

/-- groups of `k=v` tokens separated by `|` (the instances of a batch); groups without `svc=` are not instances -/
def splitGroups (ws : List String) : List (List String) :=
  (ws.foldr (fun w acc => if w == "|" then [] :: acc else
      match acc with
      | g :: rest => (w :: g) :: rest
      | [] => [[w]]) [[]]).filter fun g => kv g "svc" != ""

/-- `InstanceShortKey`'s derived order: address string, then port -/
def shortLe (a b : String × Nat) : Bool := a.1 < b.1 || (a.1 == b.1 && a.2 ≤ b.2)

/-- `get_instance_page`: the filtered list ordered by short key, one page of it -/
def instPage (l : List Inst) (size idx : Nat) : Nat × List Inst :=
  let off := if idx == 0 then 0 else size * (idx - 1)
  (l.length, ((l.mergeSort fun a b => shortLe (a.ip, a.port) (b.ip, b.port)).drop off).take size)

def allInstances (n : Naming) : String :=
  joinOrDash (sorted (n.services.flatMap fun e => e.2.insts.map fun p =>
    s!"{skeyStr e.1}@{p.2.ip}:{p.2.port}:h{b01 p.2.healthy}:p{b01 p.2.ephemeral}:c{if p.2.clientId.isEmpty then "-" else p.2.clientId}"))

def dumpStr (n : Naming) : String :=
  let svcs := sorted (n.services.map fun e =>
    let perp := "+".intercalate (sorted (e.2.perpetual.map fun h => s!"{h.ip}:{h.port}"))
    s!"{skeyStr e.1}:size={e.2.instSize}:healthy={e.2.healthySize}:n={e.2.insts.length}:perp={perp}:hto={e.2.healthyTO.length}:uto={e.2.unhealthyTO.length}")
  let clients := sorted (n.clientSets.map fun e =>
    s!"{e.1}={"+".intercalate (sorted (e.2.map fun k => s!"{skeyStr k.skey}@{k.short.ip}:{k.short.port}"))}")
  let listed := sorted (n.nsIndex.map skeyStr)
  s!"services={",".intercalate svcs} clients={",".intercalate clients} listed={",".intercalate listed} nlisted={n.nsIndex.length}"

/-- the hash of a service key, as far as the process range is concerned: services whose name ends in `-out` are the ones
the op `range2` puts outside this node's range (the harness searches a real range with that effect) -/
def hashFor (k : SKey) : Nat := if k.service.endsWith "-out" then 1 else 0

def step (n : Naming) (ws : List String) : Naming × String :=
  let now : Int := (kv ws "now").toInt?.getD 0
  match ws with
  | "upd" :: rest =>
    (n.updateInstance (parseSKey (kv rest "svc")) (instOf rest) (tagOf (kv rest "tag")) (kv rest "sync" == "1") now (hashFor (parseSKey (kv rest "svc"))), "ok")
  | "del" :: rest =>
    let i := instOf rest
    ((n.removeInstance (parseSKey (kv rest "svc")) i.short (some i.clientId) now).1, "ok")
  | "raftrm" :: rest =>
    let i := instOf rest
    (n.raftRemove (parseSKey (kv rest "svc")) i.short now, "ok")
  | "probe" :: rest =>
    let i := instOf rest
    (n.probe (parseSKey (kv rest "svc")) i.short (kv rest "ok" == "1"), "ok")
  -- what another node's sync sends: a batch of instances (`UpdateBatch`: no tag, from sync), a batch of removals
  -- (`DeleteBatch`), the clients of a node that went away (`RemoveClientsFromCluster`)
  | "updbatch" :: rest =>
    ((splitGroups rest).foldl (fun acc g => acc.updateInstance (parseSKey (kv g "svc")) (instOf g) none true now (hashFor (parseSKey (kv g "svc")))) n, "ok")
  -- a peer's digest of its gRPC connections (`SyncDistroClientInstances` -> `DiffGrpcDistroData`): groups `cid=.. svc=.. ip=.. port=..`
  | "digest" :: rest =>
    let items := (splitGroups rest).map fun g => ((kv g "cid"), (⟨parseSKey (kv g "svc"), (instOf g).short⟩ : IKey))
    let cids := (items.map (·.1)).eraseDups
    let data := cids.map fun c => (c, ((items.filter (·.1 == c)).map (·.2)).eraseDups)   -- a `HashSet`: no duplicates
    let (n', asked) := n.diffClientData data now
    (n', s!"asked {joinOrDash (sorted (asked.map fun k => s!"{skeyStr k.skey}@{k.short.ip}:{k.short.port}"))}")
  | "delbatch" :: rest =>
    ((splitGroups rest).foldl (fun acc g =>
      (acc.removeInstance (parseSKey (kv g "svc")) (instOf g).short (some (instOf g).clientId) now).1) n, "ok")
  | "rmclients" :: cs =>
    let n2 := (cs.filter fun c => !c.contains '=').foldl (fun acc c => acc.removeClient c now) n
    (n2, s!"ok before={allInstances n} after={allInstances n2}")
  | "rmclient" :: c :: _ =>
    let n2 := n.removeClient c now
    (n2, s!"ok before={allInstances n} after={allInstances n2}")
  | "rmclientc" :: c :: _ =>
    let n2 := n.removeClient c now
    (n2, s!"ok before={allInstances n} after={allInstances n2}")
  | "timecheck" :: _ => (n.timeCheck now, "ok")
  | "rmservice" :: rest =>
    let (n2, ok) := n.removeService (parseSKey (kv rest "svc"))
    (n2, if ok then "ok" else "refused")
  | "range" :: _ => (n.refreshRange (0, 1) (fun _ => 0), "ok")
  -- the cluster grew: this node is responsible for the services named `in=`, not for those named `out=` (`*-out`)
  | "range2" :: _ => (n.refreshRange (0, 2) hashFor, "ok")
  | "setprotect" :: rest =>
    let k := parseSKey (kv rest "svc")
    let p := (kv rest "p").toNat?.getD 0
    -- `update_service` creates the service when it does not exist
    let n1 := match AL.get? n.services k with
      | some _ => n
      | none => { n with services := AL.set n.services k {}, nsIndex := setInsert n.nsIndex k,
                         emptySet := n.emptySet ++ [(now + n.cfg.serviceTimeout, k)] }
    let svc := (AL.get? n1.services k).getD {}
    ({ n1 with services := AL.set n1.services k { svc with protect := p } }, "ok")
  | "list" :: rest =>
    let k := parseSKey (kv rest "svc")
    let l := n.queryList k (kv rest "ho" == "1")
    (n, s!"insts {joinOrDash (sorted (l.map (showInst · false)))} all={joinOrDash (sorted ((n.queryAll k).map (showInst · false)))} sinfo={joinOrDash (sorted (l.map fun i => s!"{i.ip}:{i.port}"))}")
  | "ipage" :: rest =>
    let k := parseSKey (kv rest "svc")
    let (total, page) := instPage (n.queryList k (kv rest "ho" == "1")) ((kv rest "size").toNat?.getD 0) ((kv rest "idx").toNat?.getD 0)
    (n, s!"ipage total={total} page={joinOrDash (page.map (showInst · false))} all={joinOrDash (sorted ((n.queryAll k).map (showInst · false)))}")
  | "selectone" :: rest =>
    -- a random choice among the healthy enabled instances: the model states the candidates
    let cands := (n.queryAll (parseSKey (kv rest "svc"))).filter fun i => i.healthy && i.enabled
    (n, s!"selectone got=* cands={joinOrDash (sorted (cands.map fun i => s!"{i.ip}:{i.port}"))}")
  | "all" :: rest => (n, s!"insts {joinOrDash (sorted ((n.queryAll (parseSKey (kv rest "svc"))).map (showInst · true)))}")
  | ["info"] =>
    let l := sorted (n.services.map fun e => s!"{e.1.group}|{e.1.service}:{e.2.instSize}:{e.2.healthySize}")
    (n, s!"total={n.nsIndex.length} svcs {",".intercalate l}")
  | ["clients"] =>
    let l := sorted ((n.clientSets.filter fun e => e.2.length > 0).map fun e => s!"{e.1}={e.2.length}")
    (n, s!"clients {",".intercalate l}")
  | ["audit"] => (n, s!"{dumpStr n} insts={allInstances n}")
  | ["dump"] => (n, dumpStr n)
  -- the registry's snapshot records, and a restart from them (a fresh registry that loads the snapshot)
  | "snap" :: _ =>
    let l := sorted ((buildSnapshot n).map fun r =>
      s!"{if r.1.ns.isEmpty then "-" else r.1.ns}|{r.1.group}|{r.1.service}@{r.2.ip}:{r.2.port}:w{r.2.weight}:e{b01 r.2.enabled}:h{b01 r.2.healthy}:p{b01 (!r.2.ephemeral)}")
    (n, s!"snap {joinOrDash l}")
  | "reload" :: _ => (loadSnapshot now (fun _ => 0) {} (buildSnapshot n), "ok")
  | _ => (n, "bad-op")

/-! ## spec oracles on the implementation's answers -/

structure Tracked where
  key : String              -- svc@ip:port
  lastBeat : Int
  http : Bool               -- ephemeral, not gRPC, owned by this node: subject to the heartbeat clock
  cand : Bool := false      -- ephemeral HTTP instance replicated from another node (taken over by a range refresh)
  healthyReg : Bool
  checksPastTi : Nat := 0   -- time checks seen with now - lastBeat >= Ti
  deriving Repr

structure SpecSt where
  pending : List String := []
  protect : List (String × Nat) := []
  tracked : List Tracked := []
  clock : Int := 0
  ruled : Bool := true        -- false once an op outside the timeline alphabet has touched instances

def field (s key : String) : String :=
  match (s.splitOn " ").find? (·.startsWith (key ++ "=")) with
  | some w => (w.drop (key.length + 1)).toString
  | none => ""

def splitList (s : String) : List String := if s == "-" || s == "" then [] else s.splitOn ","

/-- C11: the dump's counters, sets and index must agree with the instances the queries return -/
def auditVerdict (line : String) : String :=
  let svcs := splitList (field line "services")
  let insts := splitList (field line "insts")
  let clients := splitList (field line "clients")
  let listed := splitList (field line "listed")
  let bad := svcs.findSome? fun s =>
    match s.splitOn ":" with
    | k :: rest =>
      let get (p : String) : String := match rest.find? (·.startsWith p) with | some w => (w.drop p.length).toString | none => ""
      let mine := insts.filter (·.startsWith (k ++ "@"))
      let nHealthy := (mine.filter fun i => (i.splitOn ":").contains "h1").length
      let perpWant := sorted ((mine.filter fun i => (i.splitOn ":").contains "p0").map fun i =>
        ":".intercalate ((((i.splitOn "@").getD 1 "").splitOn ":").take 2))
      let perpStr := ((((s.splitOn ":perp=").getD 1 "").splitOn ":hto=").headD "")
      let perpGot := sorted (perpStr.splitOn "+" |>.filter (· ≠ ""))
      if get "size=" != toString mine.length then some s!"service {k}: instance count {get "size="} but {mine.length} instances returned"
      else if get "healthy=" != toString nHealthy then some s!"service {k}: healthy count {get "healthy="} but {nHealthy} healthy instances returned"
      else if perpGot != perpWant then some s!"service {k}: persistent set {perpGot} but non-ephemeral instances are {perpWant}"
      else if (listed.filter (· == k)).length != 1 then some s!"service {k} is listed {(listed.filter (· == k)).length} times"
      else none
    | [] => none
  match bad with
  | some m => "spec FAIL " ++ m
  | none =>
    let badClient := clients.findSome? fun c =>
      match c.splitOn "=" with
      | [cid, ks] =>
        (ks.splitOn "+").filter (· ≠ "") |>.findSome? fun k =>
          -- k = ns/g/s@ip:port ; instance line = ns/g/s@ip:port:h.:p.:c<cid>
          match insts.find? (·.startsWith (k ++ ":")) with
          | none => some s!"client {cid} holds {k} which does not exist"
          | some i => if i.endsWith (":c" ++ cid) then none else some s!"client {cid} holds {k} which belongs to another client ({i})"
      | _ => none
    match badClient with
    | some m => "spec FAIL " ++ m
    | none =>
      if (field line "nlisted") != toString listed.length then "spec FAIL index size counter differs from the listing"
      else if listed.any (fun k => !(svcs.any (·.startsWith (k ++ ":")))) then "spec FAIL a listed service does not exist"
      else "spec ok"

/-- C12: the filtered list must be exactly the enabled instances, healthy-only unless protected -/
def listVerdict (op : List String) (ans : List String) (protect : Nat) : String :=
  let ho := kv op "ho" == "1"
  let got := sorted (splitList (ans.getD 1 ""))
  let raw := splitList ((ans.getD 2 "").drop 4).toString
  let enabled := raw.filter fun i => (i.splitOn ":").contains "e1"
  let total := enabled.length
  let healthy := (enabled.filter fun i => (i.splitOn ":").contains "h1").length
  let want :=
    if total > 0 && healthy * 1000 ≤ protect * total then enabled.map fun i => i.replace ":h0:" ":h1:"
    else if ho then enabled.filter fun i => (i.splitOn ":").contains "h1" else enabled
  let addr (i : String) : String := ":".intercalate ((i.splitOn ":").take 2)
  let si := match ans.find? (·.startsWith "sinfo=") with
    | some t => some (sorted (splitList (t.drop 6).toString))
    | none => none
  if sorted want != got then s!"spec FAIL instance query returned {got}, the registered enabled instances give {sorted want}"
  else match si with
    | some l => if l == sorted (want.map addr) then "spec ok"
                else s!"spec FAIL QueryServiceInfo returned {l}, the registered enabled instances give {sorted (want.map addr)}"
    | none => "spec ok"

/-- C12 through the paged query: the page is the corresponding slice of the enabled (healthy-only unless protected)
instances in short-key order, the total their number -/
def pageVerdict (op : List String) (ans : List String) (protect : Nat) : String :=
  let ho := kv op "ho" == "1"
  let size := (kv op "size").toNat?.getD 0
  let idx := (kv op "idx").toNat?.getD 0
  let off := if idx == 0 then 0 else size * (idx - 1)
  let fieldOf (k : String) : String := match ans.find? (·.startsWith (k ++ "=")) with
    | some t => (t.drop (k.length + 1)).toString
    | none => ""
  let got := splitList (fieldOf "page")
  let raw := splitList (fieldOf "all")
  let enabled := raw.filter fun i => (i.splitOn ":").contains "e1"
  let total := enabled.length
  let healthy := (enabled.filter fun i => (i.splitOn ":").contains "h1").length
  let want :=
    if total > 0 && healthy * 1000 ≤ protect * total then enabled.map fun i => i.replace ":h0:" ":h1:"
    else if ho then enabled.filter fun i => (i.splitOn ":").contains "h1" else enabled
  let keyOf (i : String) : String × Nat := ((i.splitOn ":").getD 0 "", ((i.splitOn ":").getD 1 "").toNat?.getD 0)
  let ordered := want.mergeSort fun a b => shortLe (keyOf a) (keyOf b)
  if fieldOf "total" != toString want.length then
    s!"spec FAIL paged instance query reports total {fieldOf "total"}, the registered enabled instances are {want.length}"
  else if got != (ordered.drop off).take size then
    s!"spec FAIL paged instance query returned {got}, the registered enabled instances give {(ordered.drop off).take size}"
  else "spec ok"

/-- `SelectOneInstance`: one of the healthy enabled instances, none only when there is none -/
def selectVerdict (ans : List String) : String :=
  let fieldOf (k : String) : String := match ans.find? (·.startsWith (k ++ "=")) with
    | some t => (t.drop (k.length + 1)).toString
    | none => ""
  let cands := splitList (fieldOf "cands")
  let got := fieldOf "got"
  if got == "-" then (if cands.isEmpty then "spec ok" else s!"spec FAIL no instance selected although {cands} are healthy and enabled")
  else if cands.contains got then "spec ok"
  else s!"spec FAIL selected {got}, which is not among the healthy enabled instances {cands}"

/-- C12: a closing connection removes exactly its own ephemeral instances -/
def rmclientVerdict (cid : String) (ans : String) : String :=
  let before := splitList (field ans "before")
  let after := splitList (field ans "after")
  let mustGo := before.filter fun i => i.endsWith (":c" ++ cid) && (i.splitOn ":").contains "p1"
  let want := before.filter fun i => !mustGo.contains i
  if sorted want == sorted after then "spec ok"
  else s!"spec FAIL disconnect of {cid}: remaining {sorted after}, expected {sorted want}"

def specOp (s0 : SpecSt) (op ans : List String) : SpecSt × String :=
  let now : Int := match (kv op "now").toInt? with | some t => t | none => s0.clock
  let s : SpecSt := { s0 with clock := now }
  let line := " ".intercalate ans
  match op with
  | ["audit"] => (s, auditVerdict line)
  | "setprotect" :: rest => ({ s with protect := AL.set s.protect (kv rest "svc") ((kv rest "p").toNat?.getD 0) }, "-")
  -- a service that is removed takes its protection threshold with it (a later registration creates it with the default)
  | "rmservice" :: rest => (if ans == ["ok"] then { s with protect := AL.erase s.protect (kv rest "svc") } else s, "-")
  | "list" :: rest => (s, listVerdict rest ans ((AL.get? s.protect (kv rest "svc")).getD 0))
  | "ipage" :: rest => (s, pageVerdict rest ans ((AL.get? s.protect (kv rest "svc")).getD 0))
  | "selectone" :: _ => (s, selectVerdict ans)
  | "updbatch" :: _ => ({ s with ruled := false }, "-")
  | "digest" :: _ => ({ s with ruled := false }, "-")
  | "delbatch" :: _ => ({ s with ruled := false }, "-")
  | "rmclients" :: _ => ({ s with ruled := false }, "-")
  | "rmclient" :: c :: _ => ({ s with ruled := false }, rmclientVerdict c line)
  | "rmclientc" :: c :: _ => ({ s with ruled := false }, rmclientVerdict c line)
  | "upd" :: rest =>
    let key := s!"{kv rest "svc"}@{kv rest "ip"}:{kv rest "port"}"
    -- `tag=none` is what the beat handler sends (PUT /instance/beat: an update tag with nothing set): a heartbeat
    -- for a registered instance refreshes it and leaves what it is (persistent or ephemeral) alone
    let beat := kv rest "tag" == "none"
    let plain := (kv rest "tag" == "-" || kv rest "tag" == "" || beat) && kv rest "sync" != "1"
    let old := s.tracked.find? (·.key == key)
    let http0 := kv rest "eph" != "0" && kv rest "grpc" != "1" && (kv rest "fc" == "0" || kv rest "fc" == "")
    let cand0 := kv rest "eph" != "0" && kv rest "grpc" != "1" && !(kv rest "fc" == "0" || kv rest "fc" == "")
    let http := match old with | some o => if beat then o.http else http0 | none => http0
    let cand := match old with | some o => if beat then o.cand else cand0 | none => cand0
    -- a heartbeat that says the opposite of what the instance is, after a silence long enough for the instance to have
    -- been expired: whether it refreshes the old registration or creates a new one is not determined by this trace
    let ambiguous := match old with
      | some o => beat && (o.http != http0) && now - o.lastBeat ≥ 33000
      | none => false
    let t : Tracked := ⟨key, now, http, cand, (match old with | some o => o.healthyReg && kv rest "healthy" != "0" | none => kv rest "healthy" != "0"), 0⟩
    ({ s with tracked := t :: s.tracked.filter (·.key != key), ruled := s.ruled && plain && !ambiguous }, "-")
  | "timecheck" :: _ =>
    ({ s with tracked := s.tracked.map fun t =>
        if now - t.lastBeat ≥ 33000 then { t with checksPastTi := t.checksPastTi + 1 } else t }, "-")
  | "all" :: rest =>
    -- C13 timelines: only register/heartbeat (plain upd), timecheck and queries have occurred
    if !s.ruled then (s, "-") else
    let svc := kv rest "svc"
    let got := splitList (ans.getD 1 "")
    let bad := (s.tracked.filter (·.key.startsWith (svc ++ "@"))).findSome? fun t =>
      let addr := ((t.key.splitOn "@").getD 1 "")
      let mine := got.find? (·.startsWith (addr ++ ":"))
      let silent := now - t.lastBeat
      match mine with
      | some i =>
        let healthy := (i.splitOn ":").contains "h1"
        if t.http then
          if t.checksPastTi ≥ 2 then some s!"{t.key} silent for {silent} ms through two time checks past the instance time-out is still registered"
          else if silent < 18000 && t.healthyReg && !healthy then some s!"{t.key} heart-beating within the time-out is reported unhealthy"
          else none
        else if t.healthyReg && !healthy then some s!"{t.key} is persistent or gRPC-connected but was marked unhealthy by the heartbeat clock"
        else none
      | none =>
        if !t.http then some s!"{t.key} is persistent or gRPC-connected but was expired by the heartbeat clock"
        else if silent < 18000 then some s!"{t.key} heart-beating within the time-out was removed"
        else none
    (s, match bad with | some m => "spec FAIL " ++ m | none => "spec ok")
  | "del" :: _ => ({ s with ruled := false }, "-")
  | "probe" :: rest =>
    -- the TCP probe of a host, the health check of persistent instances: a failed probe may mark the instance at the
    -- host unhealthy (no demand on its health from then on); it never removes anything, and the heartbeat clock must
    -- still leave a persistent instance alone
    let key := s!"{kv rest "svc"}@{kv rest "ip"}:{kv rest "port"}"
    (if kv rest "ok" == "1" then s else
      { s with tracked := s.tracked.map fun t => if t.key == key then { t with healthyReg := false } else t }, "-")
  | "raftrm" :: rest =>
    -- the committed removal of a persistent record: an instance that is ephemeral now must stay (C12: no registered
    -- address is missing); judged on the next `all` through the time line (the entry is kept if it is ephemeral)
    let key := s!"{kv rest "svc"}@{kv rest "ip"}:{kv rest "port"}"
    let eph := match s.tracked.find? (·.key == key) with | some t => t.http || t.cand | none => false
    (if eph then s else { s with tracked := s.tracked.filter (·.key != key) }, "-")
  | "range2" :: _ => ({ s with tracked := s.tracked.map fun t => if t.cand && !((t.key.splitOn "@").headD "").endsWith "-out" then { t with http := true } else t }, "-")
  | "range" :: _ =>
    -- this node now owns every key: replicated HTTP instances fall under its heartbeat supervision
    ({ s with tracked := s.tracked.map fun t => if t.cand then { t with http := true } else t }, "-")
  | _ => (s, "-")

def specStep (s : SpecSt) (ws : List String) : SpecSt × String :=
  match ws with
  | ">" :: ans => specOp { s with pending := [] } s.pending ans
  | _ => ({ s with pending := ws }, "")

end RNacos.Driver.NamingDrv
