import RNacos.Model.Listener
import RNacos.Driver.Util
/-
Line protocol of model `config` (C09, C10).  Keys are written `dataId|group|tenant` (`-` = empty
field, `%XX` escapes); contents are byte tokens.
  add <key> c=<tok> type=<-|s> desc=<-|s> hid=<n> mark=<-|n> time=<n> user=<-|s>
  remove <key> | tmp <key> c=<tok>
  full <key> c=<tok> hist=<id:tok:time;…|-> type=<-|s> desc=<-|s> lastid=<-|n>
  get <key>                      -> data len=<n> h=<fnv> md5ok=1 type=<-|s> desc=<-|s> lm=<n> | none
  page t=<tenant> g=<-|=x|~x> d=<-|=x|~x> off=<n> lim=<n>   -> total=<n> keys=<k,k,…>
  hist <key> off=<-|n> lim=<-|n> -> total=<n> items=<id:fnv:time,…>
  listen <label> dl=<past|future|zero> <key>=<tok|-> …
  tick | sub <client> <key>=<tok|-> … | unsub <client> <key> … | rmclient <client> | dump
Every answer ends with ` ev=[…]`: long-poll answers (`L:DATA:keys`, `L:NULL`) and `notify:key:c1+c2`
observed while executing the op, sorted.
-/
namespace RNacos.Driver.ConfigDrv
open RNacos RNacos.Config RNacos.Listener RNacos.Driver

def unesc : List Char → List Char
  | '%' :: a :: b :: rest =>
    match hexDigit a, hexDigit b with
    | some x, some y => Char.ofNat (x * 16 + y) :: unesc rest
    | _, _ => '%' :: unesc (a :: b :: rest)
  | c :: rest => c :: unesc rest
  | [] => []

def fieldOf (s : String) : String := if s == "-" then "" else String.ofList (unesc s.toList)

def parseKey (s : String) : Key :=
  match s.splitOn "|" with
  | [d, g, t] => ⟨fieldOf d, fieldOf g, fieldOf t⟩
  | [d, g] => ⟨fieldOf d, fieldOf g, ""⟩
  | _ => ⟨s, "", ""⟩

def escField (s : String) : String :=
  if s.isEmpty then "-" else
  String.join (s.toList.map fun c =>
    if c.isAlphanum || c == '.' || c == '_' || c == ':' || c == '@' then c.toString
    else "%" ++ hexOfNat c.toNat)

def showKey (k : Key) : String := s!"{escField k.dataId}|{escField k.group}|{escField k.tenant}"

def kv (ws : List String) (k : String) : String :=
  match ws.find? (·.startsWith (k ++ "=")) with
  | some w => (w.drop (k.length + 1)).toString
  | none => ""

def optS (s : String) : Option String := if s == "-" || s == "" then none else some (fieldOf s)
def optN (s : String) : Option Nat := if s == "-" || s == "" then none else s.toNat?

def contentOf (tok : String) : String :=
  match parseBytes tok with
  | some bs => String.ofList (bs.map Char.ofNat)     -- generator uses ASCII only
  | none => ""

def strBytes (s : String) : List Nat := s.toUTF8.toList.map (·.toNat)

def parseHist (s : String) : List Hist :=
  if s == "-" || s == "" then [] else
  (s.splitOn ";").filterMap fun e =>
    match e.splitOn ":" with
    | [id, c, t] => some ⟨id.toNat?.getD 0, contentOf c, t.toInt?.getD 0, none⟩
    | [id, c, t, u] => some ⟨id.toNat?.getD 0, contentOf c, t.toInt?.getD 0, optS u⟩
    | _ => none

/-- `key=tok` items; `-` = the client holds no md5 -/
def parseItems (ws : List String) : List (Key × String) :=
  ws.filterMap fun w =>
    match w.splitOn "=" with
    | [k, v] => if k == "dl" then none else some (parseKey k, if v == "-" then "" else contentOf v)
    | _ => none

structure St where
  c : CState := {}
  labels : List (Nat × String) := []     -- version -> label

def showOptS (o : Option String) : String := match o with | some s => escField s | none => "-"

def showOuts (st : St) (cur : String) (outs : List Out) : String :=
  let evs := outs.filterMap fun o =>
    match o with
    | .data v ks =>
      let lab := if v == 0 then cur else (AL.get? st.labels v).getD s!"v{v}"
      some s!"{lab}:DATA:{"+".intercalate ((ks.map showKey).mergeSort (· ≤ ·))}"
    | .null v => some s!"{(AL.get? st.labels v).getD s!"v{v}"}:NULL"
    | .notify k cs => some s!"notify:{showKey k}:{"+".intercalate (cs.mergeSort (· ≤ ·))}"
    | .changeKeys _ => none
  "ev=[" ++ " ".intercalate (evs.mergeSort (· ≤ ·)) ++ "]"

def pastT : Int := 1
def futureT : Int := 1000000000000000
def tickNow : Int := 1000

def dumpStr (c : CState) : String :=
  let listed := (c.store.index.map fun k => s!"{k.dataId}/{k.group}/{k.tenant}").mergeSort (· ≤ ·)
  let cache := (c.store.cache.map fun (k, v) =>
    s!"{k.dataId}/{k.group}/{k.tenant}:tmp={if v.tmp then 1 else 0}:nhist={v.hist.length}").mergeSort (· ≤ ·)
  let pend := (c.l.pending.map fun p =>
    let ks := ((c.l.byKey.filter fun e => e.2.contains p.version).map fun e =>
      s!"{e.1.dataId}/{e.1.group}/{e.1.tenant}").mergeSort (· ≤ ·)
    s!"{p.version}:{"+".intercalate ks}").mergeSort (· ≤ ·)
  let sbk := (c.sub.byKey.map fun (k, cs) =>
    s!"{k.dataId}/{k.group}/{k.tenant}={"+".intercalate (cs.mergeSort (· ≤ ·))}").mergeSort (· ≤ ·)
  let sbc := (c.sub.byClient.map fun (cl, ks) =>
    s!"{cl}={"+".intercalate ((ks.map fun k => s!"{k.dataId}/{k.group}/{k.tenant}").mergeSort (· ≤ ·))}").mergeSort (· ≤ ·)
  s!"size={c.store.size} listed={",".intercalate listed} cache={",".intercalate cache} pending={",".intercalate pend} subByKey={",".intercalate sbk} subByClient={",".intercalate sbc}"

def filt (s : String) : Option String × Option String :=
  if s.startsWith "=" then (some (fieldOf (s.drop 1).toString), none)
  else if s.startsWith "~" then (none, some (fieldOf (s.drop 1).toString))
  else (none, none)

def step (st : St) (ws : List String) : St × String :=
  let run (op : Listener.Op) (cur : String) (pre : String) : St × String :=
    let (c2, outs) := st.c.step op
    ({ st with c := c2 }, pre ++ " " ++ showOuts st cur outs)
  match ws with
  | "add" :: k :: rest =>
    -- the request carries the built key string; the actor parses it back
    let key := Key.parse (parseKey k).build
    run (.publish ⟨key, contentOf (kv rest "c"), (optS (kv rest "type")).map normType, optS (kv rest "desc"),
      (kv rest "hid").toNat?.getD 0, optN (kv rest "mark"), (kv rest "time").toInt?.getD 0, optS (kv rest "user")⟩) "" "ok"
  | ["remove", k] => run (.remove (Key.parse (parseKey k).build)) "" "ok"
  | "tmp" :: k :: rest => run (.tmp (parseKey k) (contentOf (kv rest "c")) 0) "" "ok"
  | "full" :: k :: rest =>
    run (.full (parseKey k) (contentOf (kv rest "c")) (parseHist (kv rest "hist")) (optS (kv rest "type"))
      (optS (kv rest "desc")) (optN (kv rest "lastid"))) "" "ok"
  | ["get", k] =>
    match st.c.store.get (parseKey k) with
    | none => (st, "none ev=[]")
    | some v =>
      let lm := if v.tmp && v.hist.isEmpty then "*" else toString v.lastModified
      (st, s!"data len={(strBytes v.content).length} h={fnv (strBytes v.content)} md5ok={if v.md5 == v.content then 1 else 0} type={showOptS v.ctype} desc={showOptS v.desc} lm={lm} ev=[]")
  | "page" :: rest =>
    let (g, lg) := filt (kv rest "g")
    let (d, ld) := filt (kv rest "d")
    let q : Query := ⟨fieldOf (kv rest "t"), g, d, lg, ld, (kv rest "off").toNat?.getD 0, (kv rest "lim").toNat?.getD 0⟩
    let (total, ks) := st.c.store.queryPage q
    (st, s!"total={total} keys={",".intercalate (ks.map showKey)} ev=[]")
  | "hist" :: k :: rest =>
    let (total, hs) := st.c.store.historyPage (parseKey k) (optN (kv rest "off")) (optN (kv rest "lim"))
    (st, s!"total={total} items={",".intercalate (hs.map fun h => s!"{h.id}:{fnv (strBytes h.content)}:{h.time}")} ev=[]")
  | "listen" :: label :: rest =>
    let dl := match kv rest "dl" with | "past" => pastT | "zero" => 0 | _ => futureT
    let items := parseItems rest
    let (c2, outs) := st.c.step (.listen items dl)
    let newLabels := if c2.l.version != st.c.l.version then AL.set st.labels c2.l.version label else st.labels
    let st2 : St := ⟨c2, newLabels⟩
    (st2, "ok " ++ showOuts st2 label outs)
  | ["tick"] => run (.tick tickNow) "" "ok"
  | "sub" :: client :: rest =>
    let items := parseItems rest
    let (c2, outs) := st.c.step (.subscribe client items)
    let ch := outs.filterMap fun o => match o with | .changeKeys ks => some ks | _ => none
    let chs := match ch with
      | ks :: _ => "change=" ++ "+".intercalate ((ks.map showKey).mergeSort (· ≤ ·))
      | [] => "none"
    ({ st with c := c2 }, chs ++ " " ++ showOuts st "" outs)
  | "unsub" :: client :: rest => run (.unsubscribe client (rest.map parseKey)) "" "ok"
  | ["rmclient", client] => run (.removeClient client) "" "ok"
  | ["dump"] => (st, dumpStr st.c ++ " ev=[]")
  | _ => (st, "bad-op")

end RNacos.Driver.ConfigDrv

/-! ## spec oracle (C09 + C10), fed with the implementation's answers.
An independent, deliberately naive re-statement of the property: a map from key to the last applied
publish, the list of waiting long-polls with what they hold, the set of subscriptions. -/
namespace RNacos.Driver.ConfigDrv
open RNacos RNacos.Config RNacos.Driver

structure SVal where
  content : String
  ctype : Option String
  desc : Option String
  hist : List (Nat × String × Int)   -- oldest first
  deriving Repr

structure SWait where
  label : String
  items : List (Key × String)
  past : Bool
  deriving Repr

structure SpecSt where
  pending : List String := []
  vals : List (Key × SVal) := []
  waits : List SWait := []
  answered : List String := []
  subs : List (String × Key) := []
  /-- subscriptions that were in force when their key was removed and have not been renewed since: the property says they
  still hold; the code has dropped them (known finding F13) -/
  dropped : List (String × Key) := []
  blind : List Key := []          -- keys holding a temporary (not applied) value: reads are outside C09
  nblind : List Key := []         -- keys changed by import: notification duties (C10) are unknown
  tmpv : List (Key × String) := []  -- keys holding a temporary value (SetTmpValue on the node that forwarded a publish):
                                  -- comparisons use it, nobody was notified of it; the committed publish must do that

def evTokens (ans : List String) : List String :=
  match ans.find? (·.startsWith "ev=[") with
  | none => []
  | some _ =>
    -- the event list is the tail of the line: `ev=[a b c]`
    let joined := " ".intercalate (ans.dropWhile fun w => !w.startsWith "ev=[")
    let inner := ((joined.drop 4).toString.dropEnd 1).toString
    (inner.splitOn " ").filter (· ≠ "")

def curContent (s : SpecSt) (k : Key) : String := match AL.get? s.vals k with | some v => v.content | none => ""

def sortedKeys (ks : List Key) : List Key := sortKeys ks

/-- what a comparison sees: the temporary value if there is one, else the applied one -/
def effContent (s : SpecSt) (k : Key) : String :=
  match AL.get? s.tmpv k with | some c => c | none => curContent s k

/-- after a change of `k`: who must have been told in this op's events -/
def requireNotified (s : SpecSt) (k : Key) (evs : List String) : Option String :=
  let ws := s.waits.filter fun w => w.items.any (·.1 == k) && !s.answered.contains w.label
  match ws.find? (fun w => !(evs.any fun e => e.startsWith (w.label ++ ":DATA:") || e == w.label ++ ":NULL")) with
  | some w => some s!"long-poll {w.label} holds a stale md5 of {showKey k} and was not answered"
  | none =>
    let clients := ((s.subs.filter (·.2 == k)).map (·.1)).eraseDups
    if clients.isEmpty then none
    else
      match evs.find? (·.startsWith ("notify:" ++ showKey k ++ ":")) with
      | none => some s!"subscribers {clients} of {showKey k} were not notified of the change"
      | some e =>
        let got := ((e.drop ("notify:" ++ showKey k ++ ":").length).toString.splitOn "+")
        match clients.find? (fun c => !got.contains c) with
        | some c => some s!"subscriber {c} of {showKey k} missing from the notification"
        | none => none

/-- a committed publish of `k` with content `c` on a node that held a temporary value for `k`: every long-poll that
waits on something else than `c` must be answered now (the temporary value was stored without telling anybody) -/
def requireNotifiedTmp (s : SpecSt) (k : Key) (c : String) (evs : List String) : Option String :=
  let ws := s.waits.filter fun w => w.items.any (fun it => it.1 == k && it.2 != c) && !s.answered.contains w.label
  match ws.find? (fun w => !(evs.any fun e => e.startsWith (w.label ++ ":DATA:") || e == w.label ++ ":NULL")) with
  | some w => some s!"long-poll {w.label} holds a stale md5 of {showKey k} (a temporary value was stored meanwhile) and was not answered when the publish was applied"
  | none => none

def markAnswered (s : SpecSt) (evs : List String) : SpecSt × Option String :=
  let labs := evs.filterMap fun e =>
    if e.startsWith "notify:" then none else (e.splitOn ":").head?
  match labs.find? (fun l => s.answered.contains l) with
  | some l => (s, some s!"long-poll {l} answered twice")
  | none =>
    if labs.eraseDups.length != labs.length then (s, some "a long-poll answered twice in one step")
    else ({ s with answered := s.answered ++ labs }, none)

def verdict (o : Option String) : String := match o with | some m => "spec FAIL " ++ m | none => "spec ok"

/-- after a change of `k` that told everybody who must be told: were the subscribers whose subscription a removal of `k`
dropped (F13) told as well?  If not, that observation belongs to the known finding - and to nothing else -/
def verdictF13 (s : SpecSt) (k : Key) (evs : List String) (o : Option String) : String :=
  match o with
  | some m => "spec FAIL " ++ m
  | none =>
    let lost := ((s.dropped.filter (·.2 == k)).map (·.1)).eraseDups
    let got := match evs.find? (·.startsWith ("notify:" ++ showKey k ++ ":")) with
      | some e => ((e.drop ("notify:" ++ showKey k ++ ":").length).toString.splitOn "+")
      | none => []
    match lost.find? (fun c => !got.contains c) with
    | some c => s!"spec KNOWN F13-remove-drops-subscription subscriber {c} of {showKey k} (subscribed before the key was removed) is not told of the new publish"
    | none => "spec ok"

def specOp (s : SpecSt) (op ans : List String) : SpecSt × String :=
  let evs := evTokens ans
  let (s, dup) := markAnswered s evs
  if dup.isSome then (s, verdict dup) else
  match op with
  | "add" :: k :: rest =>
    let key := parseKey k
    let c := contentOf (kv rest "c")
    let old := AL.get? s.vals key
    let changed := match old with | some v => v.content != c | none => true
    let hist0 := match old with | some v => v.hist | none => []
    let hist1 := if changed then
        (if hist0.length ≥ 100 then hist0.drop 1 else hist0) ++ [((kv rest "hid").toNat?.getD 0, c, (kv rest "time").toInt?.getD 0)]
      else hist0
    let ty := match optS (kv rest "type") with | some t => some (normType t) | none => old.bind (·.ctype)
    let de := match optS (kv rest "desc") with | some d => some d | none => old.bind (·.desc)
    let r := if (AL.get? s.tmpv key).isSome then requireNotifiedTmp s key c evs
      else if changed && !s.nblind.contains key then requireNotified s key evs else none
    ({ s with vals := AL.set s.vals key ⟨c, ty, de, hist1⟩, blind := s.blind.erase key, nblind := s.nblind.erase key,
              tmpv := AL.erase s.tmpv key },
     if changed && !s.nblind.contains key && (AL.get? s.tmpv key).isNone then verdictF13 s key evs r else verdict r)
  | ["remove", k] =>
    let key := parseKey k
    let changed := (AL.get? s.vals key).isSome
    let r := if changed && !s.nblind.contains key then requireNotified s key evs else none
    let r := if (AL.get? s.tmpv key).isSome then none else r
    -- the subscriptions of the key that are in force now: from here on the code has forgotten them (F13); a client that
    -- subscribes again is subscribed like anybody else
    let gone := s.subs.filter (·.2 == key)
    ({ s with vals := AL.erase s.vals key, blind := s.blind.erase key, nblind := s.nblind.erase key, tmpv := AL.erase s.tmpv key,
              subs := s.subs.filter (·.2 != key), dropped := (s.dropped ++ gone).eraseDups }, verdict r)
  | "full" :: k :: rest =>
    let key := parseKey k
    let hist := (parseHist (kv rest "hist")).map fun h => (h.id, h.content, h.time)
    ({ s with vals := AL.set s.vals key ⟨contentOf (kv rest "c"), (optS (kv rest "type")).map normType, optS (kv rest "desc"), hist⟩,
              blind := s.blind.erase key, nblind := key :: s.nblind, tmpv := AL.erase s.tmpv key }, "-")
  | "tmp" :: k :: rest =>
    ({ s with blind := parseKey k :: s.blind, tmpv := AL.set s.tmpv (parseKey k) (contentOf (kv rest "c")) }, "-")
  | ["get", k] =>
    let key := parseKey k
    if s.blind.contains key then (s, "-") else
    match AL.get? s.vals key with
    | none => (s, if ans.head? == some "none" then "spec ok" else "spec FAIL removed / never published key is readable")
    | some v =>
      let want := s!"data len={(strBytes v.content).length} h={fnv (strBytes v.content)} md5ok=1 type={showOptS v.ctype} desc={showOptS v.desc}"
      let got := " ".intercalate (ans.take 6)
      (s, if got == want then "spec ok" else s!"spec FAIL read does not return the last applied publish: want [{want}]")
  | "page" :: rest =>
    let t := fieldOf (kv rest "t")
    let (g, lg) := filt (kv rest "g")
    let (d, ld) := filt (kv rest "d")
    let q : Query := ⟨t, g, d, lg, ld, (kv rest "off").toNat?.getD 0, (kv rest "lim").toNat?.getD 0⟩
    if s.blind.any (·.tenant == t) then (s, "-") else
    let all := (sortedKeys ((s.vals.map (·.1)).filter (·.tenant == t))).filter fun k => q.matchGroup k.group && q.matchDataId k.dataId
    let want := s!"total={all.length} keys={",".intercalate (((all.drop q.offset).take q.limit).map showKey)}"
    let got := " ".intercalate (ans.take 2)
    (s, if got == want then "spec ok" else s!"spec FAIL listing differs from the store: want [{want}]")
  | "hist" :: k :: rest =>
    let key := parseKey k
    if s.blind.contains key then (s, "-") else
    match optN (kv rest "off"), AL.get? s.vals key with
    | some off, some v =>
      let page0 := v.hist.reverse.drop off
      let page := match optN (kv rest "lim") with | some l => page0.take l | none => page0
      let want := s!"total={v.hist.length} items={",".intercalate (page.map fun h => s!"{h.1}:{fnv (strBytes h.2.1)}:{h.2.2}")}"
      let got := " ".intercalate (ans.take 2)
      (s, if got == want && v.hist.length ≤ 100 then "spec ok" else s!"spec FAIL history differs: want [{want}]")
    | _, _ => (s, "-")
  | "listen" :: label :: rest =>
    let items := parseItems rest
    let stale := (items.filter fun it => effContent s it.1 != it.2).map (·.1)
    let anyBlind := items.any fun it => s.blind.contains it.1 && (AL.get? s.tmpv it.1).isNone
    let dl := kv rest "dl"
    if anyBlind then ({ s with answered := s.answered ++ [label] }, "-")
    else if !stale.isEmpty || dl == "zero" then
      let want := s!"{label}:DATA:{"+".intercalate ((stale.map showKey).mergeSort (· ≤ ·))}"
      ({ s with answered := (s.answered ++ [label]).eraseDups },
        if evs.contains want then "spec ok" else s!"spec FAIL listener holding a differing md5 was not told at once: want [{want}]")
    else
      if evs.any (·.startsWith (label ++ ":")) then (s, s!"spec FAIL listener {label} answered although nothing differs")
      else ({ s with waits := s.waits ++ [⟨label, items, dl == "past"⟩] }, "spec ok")
  | ["tick"] =>
    match s.waits.find? (fun w => w.past && !s.answered.contains w.label) with
    | some w => (s, s!"spec FAIL long-poll {w.label} not answered by its timeout")
    | none => (s, "spec ok")
  | "sub" :: client :: rest =>
    let items := parseItems rest
    let stale := (items.filter fun it => curContent s it.1 != it.2).map (·.1)
    let anyBlind := items.any fun it => s.blind.contains it.1
    let want := if stale.isEmpty then "none" else "change=" ++ "+".intercalate ((stale.map showKey).mergeSort (· ≤ ·))
    let s2 := { s with subs := (s.subs ++ items.map fun it => (client, it.1)).eraseDups,
                       dropped := s.dropped.filter fun p => !(p.1 == client && items.any (·.1 == p.2)) }
    (s2, if anyBlind then "-" else if ans.head? == some want then "spec ok" else s!"spec FAIL subscriber not told about differing keys at once: want [{want}]")
  | "unsub" :: client :: rest =>
    let ks := rest.map parseKey
    ({ s with subs := s.subs.filter (fun p => !(p.1 == client && ks.contains p.2)),
              dropped := s.dropped.filter fun p => !(p.1 == client && ks.contains p.2) }, "-")
  | ["rmclient", client] => ({ s with subs := s.subs.filter (·.1 != client), dropped := s.dropped.filter (·.1 != client) }, "-")
  | _ => (s, "-")

def specStep (s : SpecSt) (ws : List String) : SpecSt × String :=
  match ws with
  | ">" :: ans => let (s2, v) := specOp { s with pending := [] } s.pending ans; (s2, v)
  | _ => ({ s with pending := ws }, "")

end RNacos.Driver.ConfigDrv
