import RNacos.Model.LogStore
import RNacos.Driver.Util
/-
Line protocol of model `logstore` (C02/C03, the whole Raft log through FileStore).
  open [geom=<interval>,<area>] | reopen     -> ok
  a <i> <t> <len> <seed> | b <i> <t> <n> <len> <seed>   -> ok | err
  del <k> -> ok     get <a> <b> -> ents n=<n> <i:t:len:seed | i:t:ptr>…     last -> last <i> <t>
  compact <i> <t> -> ok
-/
namespace RNacos.Driver.StoreDrv
open RNacos.LogStore RNacos.Driver

def n (s : String) : Nat := s.toNat?.getD 0

def showEnt (e : Ent) : String :=
  match e.kind with
  | .normal len sd => s!"{e.index}:{e.term}:{len}:{sd}"
  | .pointer => s!"{e.index}:{e.term}:ptr"

def answer (s : Store) (ws : List String) : Store × String :=
  match ws with
  | "open" :: _ => ({}, "ok")
  | ["reopen"] => (reopen s, "ok")
  | ["a", i, t, len, sd] =>
    let r := append s (mkEnts (n i) (n t) 1 (n len) (n sd))
    (r.1, if r.2 then "ok" else "err")
  | ["b", i, t, c, len, sd] =>
    let r := append s (mkEnts (n i) (n t) (n c) (n len) (n sd))
    (r.1, if r.2 then "ok" else "err")
  | ["del", k] => (deleteFrom s (n k), "ok")
  | ["get", a, b] =>
    let es := get s (n a) (n b)
    (s, s!"ents n={es.length}" ++ String.join (es.map fun e => " " ++ showEnt e))
  | ["last"] => (s, s!"last {(last s).1} {(last s).2}")
  | ["compact", i, t] => (compact s (n i) (n t), "ok")
  | ["files"] => (s, "files *")
  | _ => (s, "bad-op")

def step (s : Store) (ws : List String) : Store × String := answer s ws

/-- the spec oracle is the same specification, judging the implementation's answers -/
structure SpecSt where
  pending : List String := []
  s : Store := {}
  opened : Bool := false

def specStep (st : SpecSt) (ws : List String) : SpecSt × String :=
  match ws with
  | [">", "closed"] => ({ st with pending := [] }, "-")
  | ">" :: ans =>
    let op := st.pending
    let r := answer st.s op
    let st2 := { st with pending := [], s := r.1 }
    match op with
    | "files" :: _ => (st2, "-")
    | "open" :: _ => (st2, if ans == ["ok"] then "spec ok" else "spec FAIL the store does not open")
    | ["reopen"] => (st2, if ans == ["ok"] then "spec ok" else "spec FAIL the store does not reopen")
    | _ =>
      if " ".intercalate ans == r.2 then (st2, "spec ok")
      else (st2, s!"spec FAIL answer differs from the log of acknowledged entries: want [{r.2}]")
  | _ => ({ st with pending := ws }, "")

end RNacos.Driver.StoreDrv
