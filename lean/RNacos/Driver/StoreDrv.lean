import RNacos.Model.LogStore
import RNacos.Lemmas.MgrCat
import RNacos.Driver.Util
/-
Line protocol of model `logstore` (C02/C03, the whole Raft log through FileStore).
  open [geom=<interval>,<area>] | reopen     -> ok
  a <i> <t> <len> <seed> | b <i> <t> <n> <len> <seed>   -> ok | err
  del <k> -> ok     get <a> <b> -> ents n=<n> <i:t:len:seed | i:t:ptr>…     last -> last <i> <t>
  compact <i> <t> -> ok     inst <i> <t> -> ok   (snapshot installation: SplitOff(u64::MAX) + InstallSnapshotPointerLog)
-/
namespace RNacos.Driver.StoreDrv
open RNacos.LogStore RNacos.Driver

def n (s : String) : Nat := s.toNat?.getD 0

def showEnt (e : Ent) : String :=
  match e.kind with
  | .normal len sd => s!"{e.index}:{e.term}:{len}:{sd}"
  | .pointer => s!"{e.index}:{e.term}:ptr"

def answer (s : Store) (ws : List String) : Store × String :=
  match ws with
  | "open" :: _ => ({}, "ok")
  | ["reopen"] => (reopen s, "ok")
  | ["a", i, t, len, sd] =>
    let r := append s (mkEnts (n i) (n t) 1 (n len) (n sd))
    (r.1, if r.2 then "ok" else "err")
  | ["b", i, t, c, len, sd] =>
    let r := append s (mkEnts (n i) (n t) (n c) (n len) (n sd))
    (r.1, if r.2 then "ok" else "err")
  | ["del", k] => (deleteFrom s (n k), "ok")
  | ["get", a, b] =>
    let es := get s (n a) (n b)
    (s, s!"ents n={es.length}" ++ String.join (es.map fun e => " " ++ showEnt e))
  | ["last"] =>
    -- the term reported for a log without entries is the pre-term of whichever file is open: not a statement of the
    -- list specification (C03: "the reported term is that of the last remaining entry")
    (s, if s.ents.isEmpty then s!"last {(last s).1} *" else s!"last {(last s).1} {(last s).2}")
  | ["compact", i, t] => (compact s (n i) (n t), "ok")
  | ["inst", i, t] => (install s (n i) (n t), "ok")
  -- term and vote as the node's RaftStorage keeps and reports them (C05): whatever the log holds - nothing, in particular
  | ["hs", t, v] => ({ s with hs := (n t, n v) }, "ok")
  | ["init"] => (s, s!"init last={(last s).1}:* applied=* hs={s.hs.1}:{s.hs.2}")
  | ["files"] => (s, "files *")
  | ["cat"] => (s, "cat *")
  | _ => (s, "bad-op")

/-- `id:start:count:split:closed` rows of the persisted catalogue -/
def parseRows (t : String) : Option (List RNacos.LogManager.CatRow) :=
  if t == "-" then some [] else
  (t.splitOn ",").mapM fun r =>
    match (r.splitOn ":").map String.toNat? with
    | [some i, some st, some c, some sp, some cl] => some ⟨i, st, c, sp, cl != 0⟩
    | _ => none

/-- the catalogue the real manager has written, judged by the model's invariant (`chain_rowsOK`, `chain_lastOK`:
implied by `Chain`, on which the refinement theorems rest) and against the specification's log: file ids increase, the
visible log starts at the first file's split point -/
def catVerdict (s : Store) (rows : List RNacos.LogManager.CatRow) : Option String :=
  let ids := rows.map (·.id)
  let first := match s.ents.head? with | some e => some e.index | none => s.next
  if !RNacos.LogManager.rowsOK rows then some "the catalogue of log files violates the manager invariant (closed prefix, adjacent visible ranges, open last file)"
  else if !RNacos.LogManager.lastOK rows s.next then some s!"the open log file does not end where the log ends (next expected index {s.next})"
  else if !(ids.zip (ids.drop 1)).all (fun p => p.1 < p.2) then some "log file ids do not increase"
  else match rows.head?, first with
    | some f0, some i => if f0.splitOff == i then none else some s!"the first log file is split at {f0.splitOff} but the log starts at {i}"
    | _, _ => none

/-- the answers of operations that can change the catalogue of log files carry it (` cat=<rows>`): the list-level model
makes no statement about that part -/
def step (s : Store) (ws : List String) : Store × String :=
  let r := answer s ws
  match ws with
  | "open" :: _ | ["reopen"] | "a" :: _ | "b" :: _ | "del" :: _ | "compact" :: _ | "inst" :: _ =>
    if r.2 == "ok" || r.2 == "err" then (r.1, r.2 ++ " **") else r
  | _ => r

/-- the spec oracle is the same specification, judging the implementation's answers -/
structure SpecSt where
  pending : List String := []
  s : Store := {}
  opened : Bool := false
  m : RNacos.LogManager.Mgr := {}      -- the manager-level model, executed with the observed roll-over decisions
  mgrOn : Bool := false

def showRows (rows : List RNacos.LogManager.CatRow) : String :=
  if rows.isEmpty then "-" else
  ",".intercalate (rows.map fun r => s!"{r.id}:{r.start}:{r.count}:{r.splitOff}:{if r.closed then 1 else 0}")

/-- *when is a file full* read off the catalogue observed after the operation: a file is full exactly when it holds as
many records as the count it was closed with -/
def fullFrom (rows : List RNacos.LogManager.CatRow) : RNacos.LogManager.File → Bool :=
  fun f => rows.any fun r => r.id == f.id && r.closed && r.count == f.recs.length && f.recs.length > 0

/-- one operation of the manager-level model -/
def mgrStep (m : RNacos.LogManager.Mgr) (rows : List RNacos.LogManager.CatRow) (op : List String) :
    Option (RNacos.LogManager.Mgr × Option Bool) :=
  let full := fullFrom rows
  match op with
  | "open" :: _ => some ({}, none)
  | ["reopen"] => some (RNacos.LogManager.reopen m, none)
  | ["a", i, t, len, sd] =>
    let r := RNacos.LogManager.writeBatch full m (mkEnts (n i) (n t) 1 (n len) (n sd))
    some (r.1, some (r.2 == .ok))
  | ["b", i, t, c, len, sd] =>
    let r := RNacos.LogManager.writeBatch full m (mkEnts (n i) (n t) (n c) (n len) (n sd))
    some (r.1, some (r.2 == .ok))
  | ["del", k] => some (RNacos.LogManager.strip m (n k), none)
  | ["compact", i, t] => some (RNacos.LogManager.compact full m (n i) (n t), none)
  | ["inst", i, t] => some (RNacos.LogManager.install full m (n i) (n t), none)
  | _ => none

def specStep (st : SpecSt) (ws : List String) : SpecSt × String :=
  match ws with
  | [">", "closed"] => ({ st with pending := [] }, "-")
  | ">" :: ans0 =>
    let op := st.pending
    -- the catalogue part of the answer is judged separately
    let catTok := ans0.find? (·.startsWith "cat=")
    let ans := ans0.filter fun w => !w.startsWith "cat="
    let r := answer st.s op
    let st2 := { st with pending := [], s := r.1 }
    -- the manager-level model, step by step, against the persisted catalogue
    let (st3, mv) : SpecSt × Option String :=
      match catTok.bind (fun t => parseRows (t.drop 4).toString), mgrStep st.m ((catTok.bind (fun t => parseRows (t.drop 4).toString)).getD []) op with
      | some rows, some (m', okAns) =>
        let isOpen := op.head? == some "open"
        if !(st.mgrOn || isOpen) then (st2, none)
        else
          let cat' := RNacos.LogManager.catalogue m'.files
          let st3 := { st2 with m := m', mgrOn := true }
          if cat' != rows then
            ({ st3 with mgrOn := false }, some s!"spec CORR manager model's catalogue [{showRows cat'}] differs from the persisted one [{showRows rows}]")
          else if (match okAns with | some b => (ans.head? == some "ok") != b | none => false) then
            ({ st3 with mgrOn := false }, some "spec CORR manager model and implementation disagree about the acceptance of the append")
          else if RNacos.LogManager.absEnts m'.files != st2.s.ents || RNacos.LogManager.absNext m'.files != st2.s.next then
            ({ st3 with mgrOn := false }, some "spec CORR manager model and list specification differ (outside the hypotheses of the refinement theorems)")
          else (st3, none)
      | _, _ => (st2, none)
    match op with
    | "files" :: _ => (st3, "-")
    | ["cat"] =>
      match ans with
      | ["cat", t] =>
        match parseRows t with
        | some rows => (st3, match catVerdict st3.s rows with | some m => "spec FAIL " ++ m | none => "spec ok")
        | none => (st3, "spec FAIL unparsable catalogue")
      | _ => (st3, "spec FAIL no catalogue")
    | "open" :: _ => (st3, if ans == ["ok"] then (mv.getD "spec ok") else "spec FAIL the store does not open")
    | ["reopen"] => (st3, if ans == ["ok"] then (mv.getD "spec ok") else "spec FAIL the store does not reopen")
    | ["init"] =>
      -- C05: the node reports the term and vote it saved last, whatever its log holds (and the end of that log)
      let want := s!"hs={st2.s.hs.1}:{st2.s.hs.2}"
      let lastWant := s!"last={(last st2.s).1}:"
      match ans.find? (·.startsWith "hs="), ans.find? (·.startsWith "last=") with
      | some h, some l =>
        if h != want then (st3, s!"spec FAIL get_initial_state reports {h} (term:vote), the hard state saved last is {want}")
        else if !l.startsWith lastWant then (st3, s!"spec FAIL get_initial_state reports {l}, the log ends at {(last st2.s).1}")
        else (st3, "spec ok")
      | _, _ => (st3, "spec FAIL get_initial_state fails")
    | _ =>
      if " ".intercalate ans == r.2 || (r.2.endsWith " *" && ans.take 2 == (r.2.splitOn " ").take 2) then (st3, mv.getD "spec ok")
      else (st3, s!"spec FAIL answer differs from the log of acknowledged entries: want [{r.2}]")
  | _ => ({ st with pending := ws }, "")

end RNacos.Driver.StoreDrv
