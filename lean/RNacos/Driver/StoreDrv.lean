import RNacos.Model.LogStore
import RNacos.Lemmas.MgrCat
import RNacos.Driver.Util
/-
Line protocol of model `logstore` (C02/C03, the whole Raft log through FileStore).
  open [geom=<interval>,<area>] | reopen     -> ok
  a <i> <t> <len> <seed> | b <i> <t> <n> <len> <seed>   -> ok | err
  del <k> -> ok     get <a> <b> -> ents n=<n> <i:t:len:seed | i:t:ptr>…     last -> last <i> <t>
  compact <i> <t> -> ok
-/
namespace RNacos.Driver.StoreDrv
open RNacos.LogStore RNacos.Driver

def n (s : String) : Nat := s.toNat?.getD 0

def showEnt (e : Ent) : String :=
  match e.kind with
  | .normal len sd => s!"{e.index}:{e.term}:{len}:{sd}"
  | .pointer => s!"{e.index}:{e.term}:ptr"

def answer (s : Store) (ws : List String) : Store × String :=
  match ws with
  | "open" :: _ => ({}, "ok")
  | ["reopen"] => (reopen s, "ok")
  | ["a", i, t, len, sd] =>
    let r := append s (mkEnts (n i) (n t) 1 (n len) (n sd))
    (r.1, if r.2 then "ok" else "err")
  | ["b", i, t, c, len, sd] =>
    let r := append s (mkEnts (n i) (n t) (n c) (n len) (n sd))
    (r.1, if r.2 then "ok" else "err")
  | ["del", k] => (deleteFrom s (n k), "ok")
  | ["get", a, b] =>
    let es := get s (n a) (n b)
    (s, s!"ents n={es.length}" ++ String.join (es.map fun e => " " ++ showEnt e))
  | ["last"] => (s, s!"last {(last s).1} {(last s).2}")
  | ["compact", i, t] => (compact s (n i) (n t), "ok")
  | ["files"] => (s, "files *")
  | ["cat"] => (s, "cat *")
  | _ => (s, "bad-op")

/-- `id:start:count:split:closed` rows of the persisted catalogue -/
def parseRows (t : String) : Option (List RNacos.LogManager.CatRow) :=
  if t == "-" then some [] else
  (t.splitOn ",").mapM fun r =>
    match (r.splitOn ":").map String.toNat? with
    | [some i, some st, some c, some sp, some cl] => some ⟨i, st, c, sp, cl != 0⟩
    | _ => none

/-- the catalogue the real manager has written, judged by the model's invariant (`chain_rowsOK`, `chain_lastOK`:
implied by `Chain`, on which the refinement theorems rest) and against the specification's log: file ids increase, the
visible log starts at the first file's split point -/
def catVerdict (s : Store) (rows : List RNacos.LogManager.CatRow) : Option String :=
  let ids := rows.map (·.id)
  let first := match s.ents.head? with | some e => some e.index | none => s.next
  if !RNacos.LogManager.rowsOK rows then some "the catalogue of log files violates the manager invariant (closed prefix, adjacent visible ranges, open last file)"
  else if !RNacos.LogManager.lastOK rows s.next then some s!"the open log file does not end where the log ends (next expected index {s.next})"
  else if !(ids.zip (ids.drop 1)).all (fun p => p.1 < p.2) then some "log file ids do not increase"
  else match rows.head?, first with
    | some f0, some i => if f0.splitOff == i then none else some s!"the first log file is split at {f0.splitOff} but the log starts at {i}"
    | _, _ => none

def step (s : Store) (ws : List String) : Store × String := answer s ws

/-- the spec oracle is the same specification, judging the implementation's answers -/
structure SpecSt where
  pending : List String := []
  s : Store := {}
  opened : Bool := false

def specStep (st : SpecSt) (ws : List String) : SpecSt × String :=
  match ws with
  | [">", "closed"] => ({ st with pending := [] }, "-")
  | ">" :: ans =>
    let op := st.pending
    let r := answer st.s op
    let st2 := { st with pending := [], s := r.1 }
    match op with
    | "files" :: _ => (st2, "-")
    | ["cat"] =>
      match ans with
      | ["cat", t] =>
        match parseRows t with
        | some rows => (st2, match catVerdict st2.s rows with | some m => "spec FAIL " ++ m | none => "spec ok")
        | none => (st2, "spec FAIL unparsable catalogue")
      | _ => (st2, "spec FAIL no catalogue")
    | "open" :: _ => (st2, if ans == ["ok"] then "spec ok" else "spec FAIL the store does not open")
    | ["reopen"] => (st2, if ans == ["ok"] then "spec ok" else "spec FAIL the store does not reopen")
    | _ =>
      if " ".intercalate ans == r.2 then (st2, "spec ok")
      else (st2, s!"spec FAIL answer differs from the log of acknowledged entries: want [{r.2}]")
  | _ => ({ st with pending := ws }, "")

end RNacos.Driver.StoreDrv
