import RNacos.Model.Distro
import RNacos.Driver.Util
/-
Line protocol of model `distro` (C14).
  node ids=1,2,3 valid=2,3 local=2  -> range <idx> <len> own=<60 bits> route=<60 ids>
  verdict                           -> -      (spec mode: judged over all `node` answers of the case)
Residues 0..59 (= lcm(1..5)) stand for all hash values.
-/
namespace RNacos.Driver.Distro
open RNacos.Distro RNacos.Driver

def parseList (s : String) : List Nat := (s.splitOn ",").filterMap (·.toNat?)

def field (ws : List String) (k : String) : String :=
  match ws.find? (·.startsWith (k ++ "=")) with
  | some w => (w.drop (k.length + 1)).toString
  | none => ""

def viewOf (ws : List String) : View × Nat :=
  let ids := parseList (field ws "ids")
  -- nodes that went down and reported in again are live at query time (a status tick has passed)
  let valid := parseList (field ws "valid") ++ parseList (field ws "flap")
  let loc := (field ws "local").toNat?.getD 0
  -- the local node's own status is always Valid (only non-local nodes are ever invalidated)
  (ids.map fun i => ⟨i, valid.contains i || i == loc⟩, loc)

def residues : List Nat := List.range 60

def step (_ : Unit) (ws : List String) : Unit × String :=
  match ws with
  | "node" :: rest =>
    let (v, loc) := viewOf rest
    let r := ownerRange v loc
    let own := String.ofList (residues.map fun h => if isRange r h then '1' else '0')
    let rt := ",".intercalate (residues.map fun h => toString ((route v h).getD loc))
    ((), s!"range {r.1} {r.2} own={own} route={rt}")
  | ["verdict"] => ((), "-")
  | _ => ((), "bad-op")

/-- spec state: the implementation's answers for the live nodes of the current cluster view -/
structure SpecSt where
  pending : Option (List String) := none           -- last op line
  answers : List (Nat × List Bool × List Nat) := []  -- (local id, own bits, routes)
  valid : List Nat := []

def parseAnswer (loc : Nat) (ans : List String) : Option (Nat × List Bool × List Nat) :=
  match ans with
  | ["range", _, _, own, rt] =>
    let o := ((own.drop 4).toString.toList).map (· == '1')
    let r := parseList (rt.drop 6).toString
    some (loc, o, r)
  | _ => none

/-- the property itself: every residue has exactly one owner among the live nodes and every live node
routes it to that owner -/
def judge (s : SpecSt) : String :=
  let live := s.answers
  if live.isEmpty then "spec ok" else
  match residues.find? (fun h =>
      let owners := live.filter (fun a => a.2.1.getD h false)
      !(owners.length == 1 && live.all (fun a => a.2.2[h]? == owners.head?.map (·.1)))) with
  | none => "spec ok"
  | some h =>
    let owners := (live.filter (fun a => a.2.1.getD h false)).map (·.1)
    let routes := live.map (fun a => (a.1, a.2.2.getD h 0))
    s!"spec FAIL residue {h}: owners={owners} routes(local,target)={routes}"

def specStep (s : SpecSt) (ws : List String) : SpecSt × String :=
  match ws with
  | ">" :: ans =>
    match s.pending with
    | some ("node" :: rest) =>
      let loc := (field rest "local").toNat?.getD 0
      match parseAnswer loc ans with
      | some a => ({ s with pending := none, answers := s.answers ++ [a] }, "-")
      | none => ({ s with pending := none }, "spec FAIL unparsable answer")
    | some ["verdict"] => ({ s with pending := none }, judge s)
    | _ => ({ s with pending := none }, "-")
  | _ => ({ s with pending := some ws }, "")

end RNacos.Driver.Distro
