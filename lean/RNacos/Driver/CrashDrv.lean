import RNacos.Model.LogStore
import RNacos.Driver.Util
/-
Line protocol of model `crash` (C04): every prefix of the journal of file mutations is recovered by the real code.
  begin [geom=…] -> ok ;  a/b/del/hs/applied … -> ok|err ;  settle -> ok ;
  enumerate probe=<n> [geom=…] -> enum n=<prefixes> | k=<k> acks=<a> begun=<b> settled=<s> open=<ok|…>
                                   init;last=<i>:<t>;applied=<n>;hs=<t>:<v> ents;n=<n>;<i:t:len:seed>… probe=<ok|bad:…> | …
The oracle is the specification `CrashOK`: for the crash point after journal prefix k (a operations acknowledged, at
most one more begun, s of them acknowledged before the last completed flush) the recovered store must open, expose a
contiguous log that is a prefix of the log before or after the operation in progress, contains everything that was
acknowledged-and-flushed and not removed since, consists only of submitted entries, reports metadata that was written
at some point, an applied index not beyond the log, and must still be usable (the probe).
-/
namespace RNacos.Driver.CrashDrv
open RNacos.LogStore RNacos.Driver

def n (s : String) : Nat := s.toNat?.getD 0

def step (_ : Unit) (ws : List String) : Unit × String :=
  match ws with
  | "begin" :: _ => ((), "ok")
  | ["settle"] => ((), "ok")
  | "enumerate" :: _ => ((), "*")
  | "reenum" :: _ => ((), "*")
  | "a" :: _ => ((), "*")
  | "b" :: _ => ((), "*")
  | "del" :: _ => ((), "ok")
  | "hs" :: _ => ((), "ok")
  | "applied" :: _ => ((), "ok")
  | "snap" :: _ => ((), "ok")          -- a snapshot is registered: the log specification is not concerned
  | _ => ((), "bad-op")

structure Snap where
  ents : List Ent
  hs : Nat × Nat
  applied : Nat

structure SpecSt where
  pending : List String := []
  store : Store := {}
  hs : Nat × Nat := (0, 0)
  applied : Nat := 0
  /-- state after 0, 1, 2, … operations (newest first) -/
  hist : List Snap := [⟨[], (0, 0), 0⟩]

def snapOf (s : SpecSt) : Snap := ⟨s.store.ents, s.hs, s.applied⟩

def pushHist (s : SpecSt) : SpecSt := { s with hist := snapOf s :: s.hist }

/-- the state after `j` operations -/
def stateAfter (s : SpecSt) (j : Nat) : Snap :=
  (s.hist.reverse[j]?).getD (s.hist.head?.getD ⟨[], (0, 0), 0⟩)

def parseEnt (e : String) : Option Ent :=
  match e.splitOn ":" with
  | [i, t, "ptr"] => some ⟨n i, n t, .pointer⟩
  | [i, t, l, sd] => some ⟨n i, n t, .normal (n l) (n sd)⟩
  | _ => none

def fieldOf (parts : List String) (k : String) : String :=
  match parts.find? (·.startsWith (k ++ "=")) with
  | some w => (w.drop (k.length + 1)).toString
  | none => ""

def lcp : List Ent → List Ent → List Ent
  | a :: as, b :: bs => if a == b then a :: lcp as bs else []
  | _, _ => []

/-- `CrashOK` for one crash point -/
def judge (s : SpecSt) (toks : List String) : Option String :=
  let k := fieldOf toks "k"
  let a := n (fieldOf toks "acks")
  let b := n (fieldOf toks "begun")
  let st := n (fieldOf toks "settled")
  if fieldOf toks "open" != "ok" then some s!"k={k}: the store does not open after the kill ({fieldOf toks "open"})"
  else
    let initTok := (toks.find? (·.startsWith "init;")).getD ""
    let entsTok := (toks.find? (·.startsWith "ents;")).getD ""
    let ip := initTok.splitOn ";"
    let rec_ : List Ent := ((entsTok.splitOn ";").drop 2).filterMap parseEnt
    let hsv := match (fieldOf ip "hs").splitOn ":" with | [t, v] => (n t, n v) | _ => (0, 0)
    let ap := n (fieldOf ip "applied")
    let lastIdx := match (fieldOf ip "last").splitOn ":" with | i :: _ => n i | _ => 0
    let A := (stateAfter s a).ents
    let B := (stateAfter s (max a b)).ents
    -- what was acknowledged and flushed and has not been removed since
    let between := (List.range (max a b - st + 1)).map fun d => (stateAfter s (st + d)).ents
    let durable := between.foldl lcp (stateAfter s st).ents
    let contiguous := (rec_.zip (rec_.drop 1)).all fun p => p.2.index == p.1.index + 1
    let writtenHs := (List.range (max a b + 1)).map fun j => (stateAfter s j).hs
    let writtenAp := (List.range (max a b + 1)).map fun j => (stateAfter s j).applied
    if !contiguous then some s!"k={k}: the recovered log is not contiguous"
    -- the files pass through the same sequence of logs as the specification, possibly later than the
    -- acknowledgements (the managers acknowledge a truncation before the log actor has performed it): the recovered
    -- log must be (a prefix of) one of the logs up to the operation in progress, or lie between two consecutive ones
    else if !((List.range (max a b + 1)).any fun j =>
        let sj := (stateAfter s j).ents
        let sn := (stateAfter s (j + 1)).ents
        rec_.isPrefixOf sj || (sj.isPrefixOf rec_ && rec_.isPrefixOf sn && j < max a b)) then
      some s!"k={k}: the recovered log is not a log that existed (entries not submitted, or mixed from different versions)"
    else if !durable.isPrefixOf rec_ then
      some s!"k={k}: an entry that was acknowledged and flushed before the kill is missing ({rec_.length} of {durable.length})"
    else if !writtenHs.contains hsv then some s!"k={k}: term/vote {hsv.1}:{hsv.2} was never written"
    else if !writtenAp.contains ap then some s!"k={k}: last-applied {ap} was never written"
    -- only meaningful when the history itself kept the applied index inside the log
    else if ap > lastIdx && (A.any (·.index == ap) || B.any (·.index == ap)) then
      some s!"k={k}: last-applied {ap} points past the recovered log (last index {lastIdx})"
    else if fieldOf toks "probe" != "ok" then some s!"k={k}: the recovered store is not usable: {fieldOf toks "probe"}"
    else none

def splitParts : List String → List String → List (List String) → List (List String)
  | [], cur, acc => (cur.reverse :: acc).reverse
  | "|" :: ws, cur, acc => splitParts ws [] (cur.reverse :: acc)
  | w :: ws, cur, acc => splitParts ws (w :: cur) acc

def specStep (s : SpecSt) (ws : List String) : SpecSt × String :=
  match ws with
  | [">", "closed"] => ({ s with pending := [] }, "-")
  | ">" :: ans =>
    let s0 := { s with pending := [] }
    match s.pending with
    | "begin" :: _ => ({ pending := [] }, if ans == ["ok"] then "spec ok" else "spec FAIL the store does not start")
    | ["a", i, t, len, sd] =>
      let r := append s.store (mkEnts (n i) (n t) 1 (n len) (n sd))
      (pushHist { s0 with store := if ans == ["ok"] then r.1 else s.store }, "-")
    | ["b", i, t, c, len, sd] =>
      let r := append s.store (mkEnts (n i) (n t) (n c) (n len) (n sd))
      (pushHist { s0 with store := if ans == ["ok"] then r.1 else s.store }, "-")
    | ["del", k] => (pushHist { s0 with store := deleteFrom s.store (n k) }, "-")
    | ["hs", t, v] => (pushHist { s0 with hs := (n t, n v) }, "-")
    | ["applied", k] => (pushHist { s0 with applied := n k }, "-")
    | ["snap", _] => (pushHist s0, if ans == ["ok"] then "spec ok" else "spec FAIL a snapshot cannot be registered")
    | "reenum" :: _ =>
      -- a recorded journal: every prefix must open and stay usable
      let parts := (splitParts ans [] []).drop 1
      let bad := parts.filter fun t => fieldOf t "open" != "ok" || fieldOf t "probe" != "ok"
      -- crash points inside the window of the known finding F30 (see `in_cut_window` in the harness) are attributed to it
      match bad.find? (fun t => fieldOf t "win" != "xcut") with
      | some t => (s0, s!"spec FAIL k={fieldOf t "k"}: the store does not recover from this prefix: open={fieldOf t "open"} probe={fieldOf t "probe"}")
      | none =>
        match bad.head? with
        | some t => (s0, s!"spec KNOWN F30-catalogue-after-cut k={fieldOf t "k"}: open={fieldOf t "open"} probe={fieldOf t "probe"}")
        | none => (s0, if parts.isEmpty then "spec FAIL nothing was enumerated" else "spec ok")
    | "enumerate" :: _ =>
      let parts := (splitParts ans [] []).drop 1
      match (parts.filter fun t => fieldOf t "win" != "xcut").findSome? (judge s) with
      | some why => (s0, "spec FAIL " ++ why)
      | none =>
        match (parts.filter fun t => fieldOf t "win" == "xcut").findSome? (judge s) with
        | some why => (s0, "spec KNOWN F30-catalogue-after-cut " ++ why)
        | none => (s0, if parts.isEmpty then "spec FAIL nothing was enumerated" else "spec ok")
    | _ => (s0, "-")
  | _ => ({ s with pending := ws }, "")

end RNacos.Driver.CrashDrv
