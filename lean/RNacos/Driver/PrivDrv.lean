import RNacos.Model.Privilege
import RNacos.Driver.Util
/-
Line protocol of model `priv` (C18): the console API swept as namespace-restricted users.
  seed -> ok      sess <name> en=<0|1> wall=<0|1> w=<csv|-> ball=<0|1> b=<csv|-> -> ok   (`@` = the default namespace "")
  endpoints -> endpoints …
  call <endpoint> ns=<nsa|nsb|zzz|public|empty|omit> session=<name>
       -> refused | served saw=<csv|-> | served changed=<0|1> | error …
The handlers' own parameter handling is not modelled (answers are wildcards); the oracle applies the
specification `Privilege.build/check` to the implementation's answers.
-/
namespace RNacos.Driver.PrivDrv
open RNacos.Privilege RNacos.Driver

def bytes (s : String) : Ns := s.toUTF8.toList.map (·.toNat)

def kv (ws : List String) (k : String) : String :=
  match ws.find? (·.startsWith (k ++ "=")) with
  | some w => (w.drop (k.length + 1)).toString
  | none => ""

def csv (s : String) : List Ns :=
  if s == "-" || s == "" then [] else (s.splitOn ",").map fun x => if x == "@" then [] else bytes x

def step (_ : Unit) (ws : List String) : Unit × String :=
  match ws with
  | ["seed"] => ((), "ok")
  | "sess" :: _ => ((), "ok")
  | "mkuser" :: _ => ((), "ok")
  | "upduser" :: _ => ((), "ok")
  | "login" :: _ => ((), "ok")
  | "relog" :: _ => ((), "ok")
  | ["endpoints"] => ((), "endpoints **")
  | "call" :: _ => ((), "*")
  | "import" :: _ => ((), "status * *")
  | _ => ((), "bad-op")

structure SpecSt where
  pending : List String := []
  sessions : List (String × Stored) := []
  /-- the stored group of every user created through the console, as `Privilege.addUser` / `updateUser` predict it -/
  users : List (String × Stored) := []

def has (ws : List String) (k : String) : Bool := ws.any (·.startsWith (k ++ "="))

/-- the `PrivilegeGroupOptionParam` a `mkuser` / `upduser` line sends: an absent key is an absent field -/
def paramOf (ws : List String) : Option Param :=
  if !(has ws "wall" || has ws "w" || has ws "ball" || has ws "b") then none else
  some { whitelistIsAll := if has ws "wall" then some (kv ws "wall" == "1") else none,
         whitelist := if has ws "w" then some (csv (kv ws "w")) else none,
         blacklistIsAll := if has ws "ball" then some (kv ws "ball" == "1") else none,
         blacklist := if has ws "b" then some (csv (kv ws "b")) else none }

def isWrite (ep : String) : Bool :=
  !(ep.endsWith "list" || ep.endsWith "get" || ep.endsWith "info" || ep.endsWith "history" || ep.endsWith "download")

/-- the namespace a spelling names; `none` = the parameter is absent -/
def named (tok : String) : Option Ns :=
  match tok with
  | "omit" => none
  | "empty" => some []
  | t => some (bytes t)

def markerNs (m : String) : Ns := if m == "pub" then [] else bytes m

def specStep (s : SpecSt) (ws : List String) : SpecSt × String :=
  match ws with
  | ">" :: ans =>
    let s0 := { s with pending := [] }
    match s.pending with
    | "sess" :: name :: rest =>
      let st : Stored := ⟨kv rest "en" == "1", kv rest "wall" == "1", kv rest "ball" == "1", csv (kv rest "w"), csv (kv rest "b")⟩
      ({ s0 with sessions := (name, st) :: s.sessions.filter (·.1 != name) }, "-")
    | "mkuser" :: name :: rest =>
      if ans != ["ok"] then (s0, "spec FAIL the console does not create the user") else
      ({ s0 with users := (name, addUser (paramOf rest)) :: s.users.filter (·.1 != name) }, "spec ok")
    | "upduser" :: name :: rest =>
      if ans != ["ok"] then (s0, "spec FAIL the console does not update the user") else
      (match s.users.find? (·.1 == name) with
       | some (_, st) => ({ s0 with users := (name, updateUser st (paramOf rest)) :: s.users.filter (·.1 != name) }, "spec ok")
       | none => (s0, "-"))
    | "login" :: name :: rest =>
      if (s.users.find? (·.1 == name)).isNone then (s0, "-") else     -- (not created in this history: shrunk cases)
      if ans != ["ok"] then (s0, "spec FAIL a user created through the console cannot log in") else
      (match s.users.find? (·.1 == name) with
       | some (_, st) => ({ s0 with sessions := (kv rest "as", st) :: s.sessions.filter (·.1 != kv rest "as") }, "spec ok")
       | none => (s0, "-"))
    | "relog" :: name :: _ =>
      -- (a session this history never created is not judged: shrunk cases)
      if (s.sessions.find? (·.1 == name)).isNone then (s0, "-") else
      -- the session goes through the raft log's encoding (what a follower and a restarted node hold): it must survive
      -- it, and the privilege it carries is still the stored one - the later calls are judged against the same group
      if ans != ["ok"] then (s0, "spec FAIL a session does not survive the raft log's encoding (it is lost on every other node and by a restart)")
      else (s0, "spec ok")
    | "import" :: _ :: rest =>
      -- the archive upload: wherever the imported configuration has appeared, the user's privilege must permit that namespace
      (match s.sessions.find? (·.1 == kv rest "session"), ans with
       | some (_, st), ["status", _, w] =>
         let ms := let v := (w.drop 8).toString; if v == "-" then [] else v.splitOn ","
         (match ms.find? (fun m => !(build st).check (markerNs m)) with
          | some m => (s0, s!"spec FAIL an import by the restricted user wrote into namespace '{m}', which the user's privilege excludes")
          | none => (s0, "spec ok"))
       | _, _ => (s0, "-"))
    | "call" :: ep :: rest =>
      match s.sessions.find? (·.1 == kv rest "session") with
      | none => (s0, "-")
      | some (_, st) =>
        let g := build st
        let nm := named (kv rest "ns")
        -- an omitted parameter names the default namespace, except on listings, which then span all namespaces
        let isListing := ep.endsWith "list"
        let permittedNamed : Bool := match nm with
          | some k => g.check k
          | none => if isListing then true else g.check []
        -- creating a namespace without naming an id: the server picks a fresh id, which no list mentions
        if ep.endsWith "namespaces.add" && (nm.isNone || nm == some []) then (s0, "-") else
        match ans with
        | ["refused"] =>
          -- a request that names no namespace at all may be refused by a handler (its own default decides)
          -- … and so may the creation of a namespace without an id (the server would pick a fresh id)
          if permittedNamed && nm.isSome && !(ep.endsWith "namespaces.add" && nm == some []) then
            (s0, s!"spec FAIL refused although the namespace is whitelisted and not blacklisted")
          else (s0, "spec ok")
        | ["served", r] =>
          if r.startsWith "saw=" then
            let seen := let v := (r.drop 4).toString; if v == "-" then [] else v.splitOn ","
            match seen.find? (fun m => !g.check (markerNs m)) with
            | some m => (s0, s!"spec FAIL the answer contains items of namespace '{m}', which the user's privilege excludes")
            | none => (s0, "spec ok")
          else if r == "changed=1" then
            if permittedNamed then (s0, "spec ok")
            else (s0, "spec FAIL a write in a namespace that the user's privilege excludes took effect")
          else (s0, "spec ok")
        | _ => (s0, "-")
    | _ => (s0, "-")
  | _ => ({ s with pending := ws }, "")

end RNacos.Driver.PrivDrv
