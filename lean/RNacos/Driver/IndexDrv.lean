import RNacos.Model.IndexFile
import RNacos.Driver.Util
/-
Line protocol of model `indexfile` (C05).
  open | reopen                                   -> ok | dead
  hs <term> <vote> | applied <n> | addaddr <id> <addr>
  member m=<ids> after=<-|ids> addrs=<-|id:addr;…>
  logs <id:pre:start:count:split:close:remove;…|-> | snaps <id:end;…|->
  info  -> term=.. vote=.. member=.. after=.. addrs=.. logs=.. snaps=.. applied=..   | dead
-/
namespace RNacos.Driver.IndexDrv
open RNacos.IndexFile RNacos.Driver

structure St where
  disk : List Nat := []
  mem : Option IndexFile := none

def kv (ws : List String) (k : String) : String :=
  match ws.find? (·.startsWith (k ++ "=")) with
  | some w => (w.drop (k.length + 1)).toString
  | none => ""

def nats (s : String) : List Nat := if s == "-" || s == "" then [] else (s.splitOn ",").filterMap (·.toNat?)
def strBytes (s : String) : List Nat := s.toUTF8.toList.map (·.toNat)
def bytesStr (b : List Nat) : String := String.ofList (b.map Char.ofNat)

def parseAddrs (s : String) : List (Nat × List Nat) :=
  if s == "-" || s == "" then [] else
  (s.splitOn ";").filterMap fun e =>
    match e.splitOn "@" with
    | [i, a] => i.toNat?.map fun n => (n, strBytes a)
    | _ => none

def parseLogs (s : String) : List LogRange :=
  if s == "-" || s == "" then [] else
  (s.splitOn ";").filterMap fun e =>
    match (e.splitOn ":").map (·.toNat?.getD 0) with
    | [a, b, c, d, e2, f, g] => some ⟨a, b, c, d, e2, f != 0, g != 0⟩
    | _ => none

def parseSnaps (s : String) : List SnapRange :=
  if s == "-" || s == "" then [] else
  (s.splitOn ";").filterMap fun e =>
    match (e.splitOn ":").map (·.toNat?.getD 0) with
    | [a, b] => some ⟨a, b⟩
    | _ => none

def b01 (b : Bool) : String := if b then "1" else "0"
def joinN (l : List Nat) : String := if l.isEmpty then "-" else ",".intercalate (l.map toString)

def showInfo (f : IndexFile) : String :=
  let i := f.idx
  let addrs := (i.addrs.map fun a => s!"{a.1}@{bytesStr a.2}").mergeSort (· ≤ ·)
  let logs := i.logs.map fun l => s!"{l.id}:{l.preTerm}:{l.startIndex}:{l.recordCount}:{l.splitOff}:{b01 l.isClose}:{b01 l.markRemove}"
  let snaps := i.snapshots.map fun s => s!"{s.id}:{s.endIndex}"
  let j (l : List String) : String := if l.isEmpty then "-" else ";".intercalate l
  s!"term={i.term} vote={i.vote} member={joinN i.member} after={joinN i.memberAfter} addrs={j addrs} logs={j logs} snaps={j snaps} applied={f.applied}"

def withMem (st : St) (g : IndexFile → IndexFile) : St × String :=
  match st.mem with
  | none => (st, "dead")
  | some f => let f2 := g f; ({ disk := f2.bytes, mem := some f2 }, "ok")

def step (st : St) (ws : List String) : St × String :=
  match ws with
  | ["open"] | ["reopen"] =>
    match init st.disk with
    | some f => ({ disk := f.bytes, mem := some f }, "ok")
    | none => ({ st with mem := none }, "dead")
  | ["hs", t, v] => withMem st (·.step (.hardState (t.toNat?.getD 0) (v.toNat?.getD 0)))
  | ["applied", n] => withMem st (·.step (.applied (n.toNat?.getD 0)))
  | ["addaddr", i, a] => withMem st (·.step (.addAddr (i.toNat?.getD 0) (strBytes a)))
  | "member" :: rest =>
    let after := if kv rest "after" == "-" then none else some (nats (kv rest "after"))
    let addrs := if kv rest "addrs" == "-" then none else some (parseAddrs (kv rest "addrs"))
    withMem st (·.step (.member (nats (kv rest "m")) after addrs))
  | ["logs", l] => withMem st (·.step (.logs (parseLogs l)))
  | ["snaps", l] => withMem st (·.step (.snapshots (parseSnaps l)))
  | ["info"] => (st, match st.mem with | some f => showInfo f | none => "dead")
  | ["size"] => (st, s!"size {st.disk.length}")
  | _ => (st, "bad-op")

/-! spec oracle: what was saved last is what every later read returns – also after reopen -/
structure SpecSt where
  pending : List String := []
  term : Nat := 0
  vote : Nat := 0
  member : List Nat := []
  after : List Nat := []
  addrs : List (Nat × String) := []
  logs : String := "-"
  snaps : String := "-"
  applied : Nat := 0
  opened : Bool := false

def specSave (s : SpecSt) (op : List String) : SpecSt × String :=
  match op with
  | ["hs", t, v] => ({ s with term := t.toNat?.getD 0, vote := v.toNat?.getD 0 }, "-")
  | ["applied", n] => ({ s with applied := n.toNat?.getD 0 }, "-")
  | ["addaddr", i, a] => ({ s with addrs := s.addrs.filter (·.1 != i.toNat?.getD 0) ++ [(i.toNat?.getD 0, a)] }, "-")
  | "member" :: rest =>
    let s1 := { s with member := nats (kv rest "m") }
    let s2 := if kv rest "after" == "-" then s1 else { s1 with after := nats (kv rest "after") }
    let s3 := if kv rest "addrs" == "-" then s2 else
      { s2 with addrs := (parseAddrs (kv rest "addrs")).foldl (fun m a => m.filter (·.1 != a.1) ++ [(a.1, bytesStr a.2)]) [] }
    (s3, "-")
  | ["logs", l] => ({ s with logs := if l == "" then "-" else l }, "-")
  | ["snaps", l] => ({ s with snaps := if l == "" then "-" else l }, "-")
  | _ => (s, "-")

def specOp (s : SpecSt) (op ans : List String) : SpecSt × String :=
  match op with
  | ["open"] | ["reopen"] =>
    ({ s with opened := true }, if ans == ["ok"] then "spec ok" else "spec FAIL the store does not reopen")
  | ["info"] =>
    if !s.opened then (s, "-") else
    let addrs := (s.addrs.map fun a => s!"{a.1}@{a.2}").mergeSort (· ≤ ·)
    let j (l : List String) : String := if l.isEmpty then "-" else ";".intercalate l
    -- the property's subject: term, vote, membership, addresses (and the catalogue that shares the record);
    -- the last-applied header is compared between model and implementation only
    let want := s!"term={s.term} vote={s.vote} member={joinN s.member} after={joinN s.after} addrs={j addrs} logs={s.logs} snaps={s.snaps}"
    let got := " ".intercalate (ans.filter fun w => !w.startsWith "applied=")
    (s, if got == want then "spec ok" else s!"spec FAIL saved state not returned: want [{want}]")
  | _ =>
    -- only acknowledged saves count
    if ans == ["ok"] then specSave s op else (s, "-")

def specStep (s : SpecSt) (ws : List String) : SpecSt × String :=
  match ws with
  | ">" :: ans => specOp { s with pending := [] } s.pending ans
  | _ => ({ s with pending := ws }, "")

end RNacos.Driver.IndexDrv
