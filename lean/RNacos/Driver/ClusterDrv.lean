import RNacos.Driver.Util
/-
Line protocol of model `cluster` (C06/C08/C15): real rnacos processes on loopback, driven over HTTP (see
harness/src/cluster.rs).  Timing, elections and message delivery are not modelled: the model answers with
wildcards; the oracle states what the properties demand of the observations at quiescence.
-/
namespace RNacos.Driver.ClusterDrv
open RNacos.Driver

def step (_ : Unit) (ws : List String) : Unit × String :=
  match ws with
  | "up" :: _ => ((), "ok")
  | ["upauth", _] => ((), "*")         -- whether the node comes up is not modelled (the oracle: not up = nothing to judge)
  | ["login", _, _] => ((), "*")
  | ["tget", _, _, _] => ((), "status *")
  | ["tpub", _, _, _, _] => ((), "status *")
  | ["start", _] | ["kill", _] | ["stop", _] | ["cont", _] | ["settle", _] => ((), "ok")
  | ["caughtup", _, _] => ((), "caughtup **")
  | "pub" :: _ | "rm" :: _ | "reg" :: _ | "dereg" :: _ | "beat" :: _ | "greg" :: _ | "gdereg" :: _ => ((), "*")
  | "get" :: _ => ((), "*")
  | "getall" :: _ => ((), "all **")
  | "listall" :: _ => ((), "lists **")
  | _ => ((), "bad-op")

/-- a submitted configuration write: key, value (none = removal), acknowledged? -/
structure Wr where
  key : String
  val : Option String
  acked : Bool

structure SpecSt where
  pending : List String := []
  writes : List Wr := []                                 -- oldest first
  insts : List (String × String × Bool) := []            -- service, "ip:port", registered? (acknowledged ops only)
  unsure : List (String × String) := []                  -- instance ops that were not acknowledged
  formed : Bool := true                                  -- did the cluster form? (otherwise the scenario says nothing)
  gheld : List (String × String × String) := []          -- node, service, "ip:port": instances registered over a gRPC connection to that node
  gdead : List (String × String) := []                   -- service, address: held by the connections of a node that was killed
  sinceKill : Nat := 0                                   -- settling time (ms) since that kill
  ttl : Nat := 0                                         -- lifetime (s) of access tokens (scenarios with OpenAPI auth on)
  clock : Nat := 0                                       -- settling time (ms) so far: a lower bound of the time that has passed
  tokens : List (String × Nat) := []                     -- alias, clock at which the login answered
  running : List String := []                            -- the nodes that have been started and not killed

def showV (v : Option String) : String := match v with | some x => x | none => "none"

/-- what a key may hold at quiescence: the last acknowledged write, or any write submitted after it -/
def acceptable (ws : List Wr) (k : String) : List String :=
  let mine := ws.filter (·.key == k)
  let rec go : List Wr → List String → List String
    | [], acc => acc
    | w :: rest, acc => if w.acked then go rest [showV w.val] else go rest (showV w.val :: acc)
  go mine ["none"]

def nodeVals (ans : List String) : List (String × String) :=
  ans.filterMap fun t => match t.splitOn "=" with
    | [a, b] => some (a, b)
    | a :: rest => some (a, "=".intercalate rest)
    | _ => none

def specStep (s : SpecSt) (ws : List String) : SpecSt × String :=
  match ws with
  | [">", "bad-op"] => ({ s with pending := [] }, "-")
  | ">" :: ans =>
    let s0 := { s with pending := [] }
    match s.pending with
    -- forming the cluster includes a probe write `verif-up = up` that every started node must serve
    | "up" :: _ =>
      -- a cluster that does not form within three attempts makes the scenario inconclusive: it is not counted as a
      -- violation of the properties checked here (start-up is not their subject) but is visible in the evidence
      ({ pending := [], writes := [⟨"verif-up", some "up", true⟩], formed := ans == ["ok"],
         running := (List.range ((s.pending.getD 1 "").toNat?.getD 3)).map fun i => toString (i + 1) },
        if ans == ["ok"] then "spec ok" else "-")
    | ["upauth", ttl] =>
      ({ pending := [], ttl := ttl.toNat?.getD 0, formed := ans == ["ok"] }, if ans == ["ok"] then "spec ok" else "-")
    | ["login", _, a] =>
      if ans == ["ok"] then ({ s0 with tokens := (a, s.clock) :: s.tokens.filter (·.1 != a) }, "spec ok") else (s0, "-")
    | "tget" :: _ :: a :: _ | "tpub" :: _ :: a :: _ =>
      -- C16: a request that carries no token, a made-up one, or one whose lifetime has passed is refused - whatever
      -- happened to the node in between (restarts replay the log entry that stored the token)
      if !s.formed || ans.length != 2 then (s0, "-") else
      let code := ans.getD 1 ""
      if code == "down" then (s0, "-") else
      if a == "none" || a == "garbage" then
        (s0, if code == "403" then "spec ok" else s!"spec FAIL a data endpoint answers {code} to a request without a valid token")
      else match s.tokens.find? (·.1 == a) with
        | none => (s0, "-")
        | some (_, t0) =>
          if s.clock ≥ t0 + s.ttl * 1000 + 1000 then
            (s0, if code == "403" then "spec ok"
                 else s!"spec FAIL a data endpoint answers {code} to a token issued at least {(s.clock - t0) / 1000} s ago; tokens live {s.ttl} s")
          else (s0, "-")
    | ["pub", _, k, v] => ({ s0 with writes := s.writes ++ [⟨k, some v, ans == ["ok"]⟩] }, "-")
    | ["rm", _, k] => ({ s0 with writes := s.writes ++ [⟨k, none, ans == ["ok"]⟩] }, "-")
    | ["reg", _, svc, ip, port, _] =>
      if ans == ["ok"] then ({ s0 with insts := (svc, s!"{ip}:{port}", true) :: s.insts.filter (fun e => !(e.1 == svc && e.2.1 == s!"{ip}:{port}")) }, "-")
      else ({ s0 with unsure := (svc, s!"{ip}:{port}") :: s.unsure }, "-")
    | ["dereg", _, svc, ip, port, _] =>
      -- an address that is registered AND deregistered within one scenario is not predicted: the property demands that
      -- the nodes agree, not which of two operations issued back to back through different nodes is the later one
      ({ s0 with unsure := (svc, s!"{ip}:{port}") :: s.unsure,
                 insts := s.insts.filter (fun e => !(e.1 == svc && e.2.1 == s!"{ip}:{port}")) }, "-")
    | ["greg", _, i, svc, ip, port] =>
      if ans == ["ok"] then
        ({ s0 with insts := (svc, s!"{ip}:{port}", true) :: s.insts.filter (fun e => !(e.1 == svc && e.2.1 == s!"{ip}:{port}")),
                   gheld := (i, svc, s!"{ip}:{port}") :: s.gheld }, "-")
      else ({ s0 with unsure := (svc, s!"{ip}:{port}") :: s.unsure }, "-")
    | ["gdereg", _, svc, ip, port] =>
      ({ s0 with unsure := (svc, s!"{ip}:{port}") :: s.unsure,
                 insts := s.insts.filter (fun e => !(e.1 == svc && e.2.1 == s!"{ip}:{port}")),
                 gheld := s.gheld.filter (fun e => !(e.2.1 == svc && e.2.2 == s!"{ip}:{port}")) }, "-")
    | ["kill", i] =>
      -- the ephemeral instances held by the gRPC connections of a dead node must disappear from the other nodes
      let mine := (s.gheld.filter (·.1 == i)).map (·.2)
      ({ s0 with gdead := mine ++ s.gdead, sinceKill := 0, unsure := mine ++ s.unsure, running := s.running.filter (· != i) }, "-")
    | ["start", i] =>
      -- the clients reconnect to the restarted node and register again: presence is not predicted any more
      let back := (s.gheld.filter (·.1 == i)).map (·.2)
      ({ s0 with gdead := s.gdead.filter (fun e => !back.contains e), running := i :: s.running.filter (· != i) }, "-")
    | ["settle", ms] => ({ s0 with sinceKill := s.sinceKill + ms.toNat?.getD 0, clock := s.clock + ms.toNat?.getD 0 }, "-")
    | ["caughtup", i, ms] =>
      -- C08: a node that joined late or fell behind is caught up (log or snapshot) - within the bound given
      -- (a node that is not running cannot be asked to catch up: nothing to judge)
      if !s.running.contains i then (s0, "-") else
      (s0, if ans.getD 1 "" == "ok" then "spec ok"
           else s!"spec FAIL node {i} has not applied what the other nodes have applied within {ms} ms ({" ".intercalate ans})")
    | ["getall", k] =>
      if !s.formed then (s0, "-") else
      let vals := (nodeVals (ans.drop 1)).filter (·.2 != "down")
      let acc := acceptable s.writes k
      match vals with
      | [] => (s0, "-")
      | (_, v0) :: _ =>
        match vals.find? (·.2 != v0) with
        | some (n, v) => (s0, s!"spec FAIL nodes settled on different contents for '{k}': node {n} serves '{v}', another '{v0}'")
        | none =>
          if acc.contains v0 then (s0, "spec ok")
          else (s0, s!"spec FAIL every node serves '{v0}' for '{k}', but the last acknowledged write (or a later one) is one of {acc}")
    | ["listall", svc] =>
      if !s.formed then (s0, "-") else
      let vals := (nodeVals (ans.drop 1)).filter (·.2 != "down")
      match vals with
      | [] => (s0, "-")
      | (_, v0) :: _ =>
        match vals.find? (·.2 != v0) with
        | some (n, v) => (s0, s!"spec FAIL nodes return different instances for '{svc}': node {n} [{v}], another [{v0}]")
        | none =>
          -- addresses only: health/weight are compared between the nodes, not predicted
          let got := if v0 == "-" then [] else (v0.splitOn ",").map fun h => ":".intercalate ((h.splitOn ":").take 2)
          let want := (s.insts.filter (fun e => e.1 == svc && e.2.2)).map (·.2.1)
          let unsure := (s.unsure.filter (·.1 == svc)).map (·.2)
          let missing := want.filter fun a => !got.contains a && !unsure.contains a
          let extra := got.filter fun a => !want.contains a && !unsure.contains a
          let ghosts := ((s.gdead.filter (·.1 == svc)).map (·.2)).filter got.contains
          if s.sinceKill ≥ 30000 && !ghosts.isEmpty then
            (s0, s!"spec FAIL instances held by the gRPC connections of a node that died 30 s ago are still listed: {ghosts}")
          else if !missing.isEmpty then (s0, s!"spec FAIL registered instances missing on every node: {missing}")
          else if !extra.isEmpty then (s0, s!"spec FAIL instances returned that are not registered: {extra}")
          else (s0, "spec ok")
    | _ => (s0, "-")
  | _ => ({ s with pending := ws }, "")

end RNacos.Driver.ClusterDrv
