/-
Shared helpers of the line-protocol driver (no proofs depend on this file).
-/
namespace RNacos.Driver

def hexDigit (c : Char) : Option Nat :=
  if '0' ≤ c ∧ c ≤ '9' then some (c.toNat - '0'.toNat)
  else if 'a' ≤ c ∧ c ≤ 'f' then some (c.toNat - 'a'.toNat + 10)
  else if 'A' ≤ c ∧ c ≤ 'F' then some (c.toNat - 'A'.toNat + 10)
  else none

def parseHexChars : List Char → List Nat → Option (List Nat)
  | [], acc => some acc.reverse
  | [_], _ => none
  | a :: b :: rest, acc =>
    match hexDigit a, hexDigit b with
    | some x, some y => parseHexChars rest ((x * 16 + y) :: acc)
    | _, _ => none

/-- Byte-string token: segments joined by `.`; a segment is hex, `zN` (N zero bytes),
`rH*N` (N copies of the hex string H) or `-` (empty). -/
def parseBytes (tok : String) : Option (List Nat) :=
  if tok == "-" then some [] else
  (tok.splitOn ".").foldlM (init := ([] : List Nat)) fun acc seg =>
    if seg.startsWith "z" then
      (seg.drop 1).toString.toNat?.map fun n => acc ++ List.replicate n 0
    else if seg.startsWith "r" then
      match (seg.drop 1).toString.splitOn "*" with
      | [b, n] => do
        let bb ← parseHexChars b.toList []
        let nn ← n.toNat?
        some (acc ++ (List.replicate nn bb).flatten)
      | _ => none
    else (parseHexChars seg.toList []).map (acc ++ ·)

def hexOfNat (n : Nat) : String :=
  let d (x : Nat) : Char := if x < 10 then Char.ofNat (x + 48) else Char.ofNat (x + 87)
  String.ofList [d (n / 16 % 16), d (n % 16)]

def toHex (bs : List Nat) : String :=
  if bs.isEmpty then "-" else String.join (bs.map hexOfNat)

/-- FNV-1a, 64 bit. -/
def fnv (bs : List Nat) : Nat :=
  bs.foldl (fun h b => ((h ^^^ b) * 1099511628211) % 2 ^ 64) 14695981039346656037

def fnvStr (s : String) : Nat := fnv (s.toUTF8.toList.map (·.toNat))

def words (line : String) : List String :=
  (line.trimAscii.toString.splitOn " ").filter (· ≠ "")

end RNacos.Driver
