/-
Association lists as the model of `HashMap`/`BTreeMap` (iteration order is never observable in the
models: outputs are sorted by the driver).  `set` keeps at most one entry per key.
-/
namespace RNacos.AL

variable {κ : Type} {ν : Type} [DecidableEq κ]

def get? (l : List (κ × ν)) (k : κ) : Option ν :=
  match l with
  | [] => none
  | (k', v) :: rest => if k' = k then some v else get? rest k

def erase (l : List (κ × ν)) (k : κ) : List (κ × ν) :=
  match l with
  | [] => []
  | (k', v) :: rest => if k' = k then erase rest k else (k', v) :: erase rest k

def set (l : List (κ × ν)) (k : κ) (v : ν) : List (κ × ν) := (k, v) :: erase l k

def contains (l : List (κ × ν)) (k : κ) : Bool := (get? l k).isSome

def keys (l : List (κ × ν)) : List κ := l.map (·.1)

@[simp] theorem get?_nil (k : κ) : get? ([] : List (κ × ν)) k = none := rfl

theorem get?_erase_same (l : List (κ × ν)) (k : κ) : get? (erase l k) k = none := by
  induction l with
  | nil => rfl
  | cons p rest ih =>
    obtain ⟨k', v⟩ := p
    by_cases h : k' = k
    · simp [erase, h, ih]
    · simp [erase, h, get?, ih]

theorem get?_erase_other (l : List (κ × ν)) (k k2 : κ) (h : k ≠ k2) :
    get? (erase l k) k2 = get? l k2 := by
  induction l with
  | nil => rfl
  | cons p rest ih =>
    obtain ⟨k', v⟩ := p
    by_cases h1 : k' = k
    · subst h1
      simp [erase, get?, h, ih]
    · by_cases h2 : k' = k2
      · subst h2; simp [erase, h1, get?]
      · simp [erase, h1, get?, h2, ih]

theorem erase_erase_same (l : List (κ × ν)) (k : κ) : erase (erase l k) k = erase l k := by
  induction l with
  | nil => rfl
  | cons p rest ih =>
    obtain ⟨k', v⟩ := p
    by_cases h : k' = k
    · simp [erase, h, ih]
    · simp [erase, h, ih]

@[simp] theorem get?_set_same (l : List (κ × ν)) (k : κ) (v : ν) : get? (set l k v) k = some v := by
  simp [set, get?]

theorem get?_set_other (l : List (κ × ν)) (k k2 : κ) (v : ν) (h : k ≠ k2) :
    get? (set l k v) k2 = get? l k2 := by
  simp [set, get?, h, get?_erase_other l k k2 h]

end RNacos.AL

namespace RNacos.AL

variable {κ : Type} {ν : Type} [DecidableEq κ]

/-- keys are unique -/
def NodupKeys (l : List (κ × ν)) : Prop := (l.map (·.1)).Nodup

theorem get?_eq_none_iff (l : List (κ × ν)) (k : κ) : get? l k = none ↔ k ∉ l.map (·.1) := by
  induction l with
  | nil => simp
  | cons p rest ih =>
    obtain ⟨k', v⟩ := p
    by_cases h : k' = k
    · simp [get?, h]
    · simp only [get?, h, if_false, List.map_cons, List.mem_cons]
      rw [ih]
      constructor
      · intro hn hc; rcases hc with hc | hc
        · exact h hc.symm
        · exact hn hc
      · intro hn hc; exact hn (Or.inr hc)

theorem erase_of_get?_none (l : List (κ × ν)) (k : κ) (h : get? l k = none) : erase l k = l := by
  induction l with
  | nil => rfl
  | cons p rest ih =>
    obtain ⟨k', v⟩ := p
    by_cases h1 : k' = k
    · simp [get?, h1] at h
    · simp only [get?, h1, if_false] at h
      simp [erase, h1, ih h]

theorem mem_keys_erase (l : List (κ × ν)) (k k2 : κ) : k2 ∈ (erase l k).map (·.1) ↔ k2 ≠ k ∧ k2 ∈ l.map (·.1) := by
  induction l with
  | nil => simp [erase]
  | cons p rest ih =>
    obtain ⟨k', v⟩ := p
    by_cases h1 : k' = k
    · subst h1
      simp only [erase, if_true, ih, List.map_cons, List.mem_cons]
      constructor
      · rintro ⟨a, b⟩; exact ⟨a, Or.inr b⟩
      · rintro ⟨a, b | b⟩
        · exact absurd b a
        · exact ⟨a, b⟩
    · simp only [erase, h1, if_false, List.map_cons, List.mem_cons, ih]
      constructor
      · rintro (a | ⟨a, b⟩)
        · exact ⟨by rw [a]; exact h1, Or.inl a⟩
        · exact ⟨a, Or.inr b⟩
      · rintro ⟨a, b | b⟩
        · exact Or.inl b
        · exact Or.inr ⟨a, b⟩

theorem nodupKeys_erase (l : List (κ × ν)) (k : κ) (h : NodupKeys l) : NodupKeys (erase l k) := by
  unfold NodupKeys at *
  induction l with
  | nil => simp [erase]
  | cons p rest ih =>
    obtain ⟨k', v⟩ := p
    simp only [List.map_cons, List.nodup_cons] at h
    by_cases h1 : k' = k
    · simp only [erase, h1, if_true]; exact ih h.2
    · simp only [erase, h1, if_false, List.map_cons, List.nodup_cons]
      refine ⟨?_, ih h.2⟩
      intro hc
      exact h.1 ((mem_keys_erase rest k k').mp hc).2

theorem nodupKeys_set (l : List (κ × ν)) (k : κ) (v : ν) (h : NodupKeys l) : NodupKeys (set l k v) := by
  unfold set NodupKeys
  simp only [List.map_cons, List.nodup_cons]
  refine ⟨?_, nodupKeys_erase l k h⟩
  intro hc
  exact ((mem_keys_erase l k k).mp hc).1 rfl

/-- with unique keys, erasing a present key removes exactly its entry -/
theorem erase_split (l : List (κ × ν)) (k : κ) (v : ν) (hn : NodupKeys l) (hg : get? l k = some v) :
    ∃ l1 l2, l = l1 ++ (k, v) :: l2 ∧ erase l k = l1 ++ l2 := by
  induction l with
  | nil => simp at hg
  | cons p rest ih =>
    obtain ⟨k', v'⟩ := p
    unfold NodupKeys at hn
    simp only [List.map_cons, List.nodup_cons] at hn
    by_cases h1 : k' = k
    · subst h1
      simp only [get?, if_true, Option.some.injEq] at hg
      subst hg
      have hnone : get? rest k' = none := (get?_eq_none_iff rest k').mpr hn.1
      exact ⟨[], rest, rfl, by simp [erase, erase_of_get?_none rest k' hnone]⟩
    · simp only [get?, h1, if_false] at hg
      obtain ⟨l1, l2, e1, e2⟩ := ih hn.2 hg
      exact ⟨(k', v') :: l1, l2, by rw [e1]; rfl, by simp [erase, h1, e2]⟩

theorem length_erase_some (l : List (κ × ν)) (k : κ) (v : ν) (hn : NodupKeys l) (hg : get? l k = some v) :
    (erase l k).length + 1 = l.length := by
  obtain ⟨l1, l2, e1, e2⟩ := erase_split l k v hn hg
  rw [e2, e1]; simp; omega

theorem count_erase_some (p : κ × ν → Bool) (l : List (κ × ν)) (k : κ) (v : ν) (hn : NodupKeys l)
    (hg : get? l k = some v) :
    ((erase l k).filter p).length + (if p (k, v) then 1 else 0) = (l.filter p).length := by
  obtain ⟨l1, l2, e1, e2⟩ := erase_split l k v hn hg
  rw [e2, e1]
  simp only [List.filter_append, List.length_append, List.filter_cons]
  split <;> simp <;> omega

theorem get?_some_mem (l : List (κ × ν)) (k : κ) (v : ν) (h : get? l k = some v) : (k, v) ∈ l := by
  induction l with
  | nil => simp at h
  | cons p rest ih =>
    obtain ⟨k', v'⟩ := p
    by_cases h1 : k' = k
    · subst h1; simp [get?] at h; subst h; simp
    · simp only [get?, h1, if_false] at h
      exact List.mem_cons_of_mem _ (ih h)

theorem mem_get?_some (l : List (κ × ν)) (k : κ) (v : ν) (hn : NodupKeys l) (h : (k, v) ∈ l) : get? l k = some v := by
  induction l with
  | nil => simp at h
  | cons p rest ih =>
    obtain ⟨k', v'⟩ := p
    unfold NodupKeys at hn
    simp only [List.map_cons, List.nodup_cons] at hn
    simp only [List.mem_cons, Prod.mk.injEq] at h
    rcases h with ⟨rfl, rfl⟩ | h
    · simp [get?]
    · have hk : k' ≠ k := by
        intro e; subst e
        exact hn.1 (List.mem_map.mpr ⟨(k', v), h, rfl⟩)
      simp only [get?, hk, if_false]
      exact ih hn.2 h

end RNacos.AL
