/-
Association lists as the model of `HashMap`/`BTreeMap` (iteration order is never observable in the
models: outputs are sorted by the driver).  `set` keeps at most one entry per key.
-/
namespace RNacos.AL

variable {κ : Type} {ν : Type} [DecidableEq κ]

def get? (l : List (κ × ν)) (k : κ) : Option ν :=
  match l with
  | [] => none
  | (k', v) :: rest => if k' = k then some v else get? rest k

def erase (l : List (κ × ν)) (k : κ) : List (κ × ν) :=
  match l with
  | [] => []
  | (k', v) :: rest => if k' = k then erase rest k else (k', v) :: erase rest k

def set (l : List (κ × ν)) (k : κ) (v : ν) : List (κ × ν) := (k, v) :: erase l k

def contains (l : List (κ × ν)) (k : κ) : Bool := (get? l k).isSome

def keys (l : List (κ × ν)) : List κ := l.map (·.1)

@[simp] theorem get?_nil (k : κ) : get? ([] : List (κ × ν)) k = none := rfl

theorem get?_erase_same (l : List (κ × ν)) (k : κ) : get? (erase l k) k = none := by
  induction l with
  | nil => rfl
  | cons p rest ih =>
    obtain ⟨k', v⟩ := p
    by_cases h : k' = k
    · simp [erase, h, ih]
    · simp [erase, h, get?, ih]

theorem get?_erase_other (l : List (κ × ν)) (k k2 : κ) (h : k ≠ k2) :
    get? (erase l k) k2 = get? l k2 := by
  induction l with
  | nil => rfl
  | cons p rest ih =>
    obtain ⟨k', v⟩ := p
    by_cases h1 : k' = k
    · subst h1
      simp [erase, get?, h, ih]
    · by_cases h2 : k' = k2
      · subst h2; simp [erase, h1, get?]
      · simp [erase, h1, get?, h2, ih]

theorem erase_erase_same (l : List (κ × ν)) (k : κ) : erase (erase l k) k = erase l k := by
  induction l with
  | nil => rfl
  | cons p rest ih =>
    obtain ⟨k', v⟩ := p
    by_cases h : k' = k
    · simp [erase, h, ih]
    · simp [erase, h, ih]

@[simp] theorem get?_set_same (l : List (κ × ν)) (k : κ) (v : ν) : get? (set l k v) k = some v := by
  simp [set, get?]

theorem get?_set_other (l : List (κ × ν)) (k k2 : κ) (v : ν) (h : k ≠ k2) :
    get? (set l k v) k2 = get? l k2 := by
  simp [set, get?, h, get?_erase_other l k k2 h]

end RNacos.AL
