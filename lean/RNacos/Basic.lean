def hello := "world"
