import RNacos.Model.Varint
import RNacos.Model.BufReader
