#!/bin/sh
# Build everything the checks need, offline, from files on disk only.
set -e
cd "$(dirname "$0")"
export CARGO_NET_OFFLINE=true
mkdir -p work .build
[ -f harness/Cargo.lock ] || cp /repo/Cargo.lock harness/Cargo.lock
gcc -shared -fPIC -O2 -o .build/clockshim.so shim/clockshim.c -ldl
gcc -shared -fPIC -O2 -o .build/fsjournal.so shim/fsjournal.c -ldl -lpthread
if [ -f translate/translate.py ]; then python3 translate/translate.py; fi
(cd lean && lake build RNacos driver)
(cd harness && cargo build --offline)
(cd /repo && cargo build --offline)
