/* LD_PRELOAD shim: lets the harness freeze CLOCK_REALTIME at a chosen value.
 * Monotonic clocks are untouched (tokio/actix timers keep working).
 * No source change in the repository is needed: SystemTime::now / chrono::Local::now go through
 * clock_gettime(CLOCK_REALTIME). */
#define _GNU_SOURCE
#include <dlfcn.h>
#include <time.h>
#include <sys/time.h>

static volatile long long frozen_ms = -1; /* -1 = real clock */

void verif_clock_set_ms(long long ms) { frozen_ms = ms; }
long long verif_clock_get_ms(void) { return frozen_ms; }

typedef int (*cg_fn)(clockid_t, struct timespec *);

int clock_gettime(clockid_t id, struct timespec *ts) {
    static cg_fn real = 0;
    if (!real) real = (cg_fn)dlsym(RTLD_NEXT, "clock_gettime");
    int r = real(id, ts);
    if (r == 0 && id == CLOCK_REALTIME && frozen_ms >= 0) {
        ts->tv_sec = frozen_ms / 1000;
        ts->tv_nsec = (frozen_ms % 1000) * 1000000L;
    }
    return r;
}

int gettimeofday(struct timeval *tv, void *tz) {
    struct timespec ts;
    (void)tz;
    if (clock_gettime(CLOCK_REALTIME, &ts) != 0) return -1;
    if (tv) { tv->tv_sec = ts.tv_sec; tv->tv_usec = ts.tv_nsec / 1000; }
    return 0;
}
