/* LD_PRELOAD interposer: journals the file mutations a process issues under one directory, in program order.
 * VERIF_FSJ_DIR  = directory prefix to watch (absolute)
 * VERIF_FSJ_OUT  = journal file (text, one mutation per line); write payloads go to <OUT>.blob
 * Lines:  W <relpath> <offset> <len> <blob offset>     write/pwrite (offset = file position at the call)
 *         T <relpath> <len>                             ftruncate / open(O_TRUNC)
 *         C <relpath>                                   file created by open(O_CREAT)
 *         U <relpath>                                   unlink
 *         R <old> <new>                                 rename
 *         M <text>                                      marker written by the process itself (fsj_mark)
 * Every interposed call is journaled after the real call returned successfully, under one mutex, so the journal
 * order is the order in which the kernel applied the mutations ("each write call atomic, program order").
 */
#define _GNU_SOURCE
#include <dlfcn.h>
#include <errno.h>
#include <fcntl.h>
#include <pthread.h>
#include <stdarg.h>
#include <stdio.h>
#include <stdlib.h>
#include <string.h>
#include <sys/stat.h>
#include <sys/types.h>
#include <unistd.h>

static pthread_mutex_t mu = PTHREAD_MUTEX_INITIALIZER;
static int out_fd = -1, blob_fd = -1;
static long long blob_off = 0;
static char watch[4096];
static size_t watch_len = 0;
static int ready = 0;

static ssize_t (*real_write)(int, const void *, size_t);
static ssize_t (*real_pwrite)(int, const void *, size_t, off_t);
static int (*real_ftruncate)(int, off_t);
static int (*real_unlink)(const char *);
static int (*real_rename)(const char *, const char *);
static int (*real_open)(const char *, int, ...);
static int (*real_openat)(int, const char *, int, ...);

static void init_once(void) {
    if (ready) return;
    real_write = dlsym(RTLD_NEXT, "write");
    real_pwrite = dlsym(RTLD_NEXT, "pwrite64");
    real_ftruncate = dlsym(RTLD_NEXT, "ftruncate64");
    real_unlink = dlsym(RTLD_NEXT, "unlink");
    real_rename = dlsym(RTLD_NEXT, "rename");
    real_open = dlsym(RTLD_NEXT, "open64");
    real_openat = dlsym(RTLD_NEXT, "openat64");
    const char *d = getenv("VERIF_FSJ_DIR");
    const char *o = getenv("VERIF_FSJ_OUT");
    if (d && o) {
        strncpy(watch, d, sizeof(watch) - 1);
        watch_len = strlen(watch);
        char b[4200];
        snprintf(b, sizeof b, "%s.blob", o);
        out_fd = real_open(o, O_WRONLY | O_CREAT | O_APPEND, 0644);
        blob_fd = real_open(b, O_WRONLY | O_CREAT | O_APPEND, 0644);
    }
    ready = 1;
}

static const char *rel_of_path(const char *p) {
    if (!p || watch_len == 0) return 0;
    if (strncmp(p, watch, watch_len) != 0) return 0;
    const char *r = p + watch_len;
    while (*r == '/') r++;
    return r;
}

static int rel_of_fd(int fd, char *buf, size_t n) {
    char link[64];
    snprintf(link, sizeof link, "/proc/self/fd/%d", fd);
    ssize_t k = readlink(link, buf, n - 1);
    if (k <= 0) return 0;
    buf[k] = 0;
    /* an unlinked file shows as "<path> (deleted)": what is written to it is not part of the directory any more */
    if (strstr(buf, " (deleted)")) return 0;
    const char *r = rel_of_path(buf);
    if (!r) return 0;
    memmove(buf, r, strlen(r) + 1);
    return 1;
}

static void emit(const char *fmt, ...) {
    if (out_fd < 0) return;
    char line[9000];
    va_list ap;
    va_start(ap, fmt);
    int k = vsnprintf(line, sizeof line, fmt, ap);
    va_end(ap);
    if (k > 0) real_write(out_fd, line, (size_t)k);
}

void fsj_mark(const char *text) {
    init_once();
    pthread_mutex_lock(&mu);
    emit("M %s\n", text);
    pthread_mutex_unlock(&mu);
}

static void journal_write(int fd, const void *buf, size_t len, long long off) {
    char rel[4096];
    if (out_fd < 0 || fd == out_fd || fd == blob_fd) return;
    if (!rel_of_fd(fd, rel, sizeof rel)) return;
    long long bo = blob_off;
    real_write(blob_fd, buf, len);
    blob_off += (long long)len;
    emit("W %s %lld %zu %lld\n", rel, off, len, bo);
}

ssize_t write(int fd, const void *buf, size_t len) {
    init_once();
    if (out_fd < 0) return real_write(fd, buf, len);
    pthread_mutex_lock(&mu);
    off_t pos = lseek(fd, 0, SEEK_CUR);
    ssize_t r = real_write(fd, buf, len);
    if (r > 0 && pos >= 0) journal_write(fd, buf, (size_t)r, (long long)pos);
    pthread_mutex_unlock(&mu);
    return r;
}

ssize_t pwrite64(int fd, const void *buf, size_t len, off_t off) {
    init_once();
    if (out_fd < 0) return real_pwrite(fd, buf, len, off);
    pthread_mutex_lock(&mu);
    ssize_t r = real_pwrite(fd, buf, len, off);
    if (r > 0) journal_write(fd, buf, (size_t)r, (long long)off);
    pthread_mutex_unlock(&mu);
    return r;
}
ssize_t pwrite(int fd, const void *buf, size_t len, off_t off) { return pwrite64(fd, buf, len, off); }

int ftruncate64(int fd, off_t len) {
    init_once();
    if (out_fd < 0) return real_ftruncate(fd, len);
    pthread_mutex_lock(&mu);
    int r = real_ftruncate(fd, len);
    char rel[4096];
    if (r == 0 && rel_of_fd(fd, rel, sizeof rel)) emit("T %s %lld\n", rel, (long long)len);
    pthread_mutex_unlock(&mu);
    return r;
}
int ftruncate(int fd, off_t len) { return ftruncate64(fd, len); }

int unlink(const char *p) {
    init_once();
    if (out_fd < 0) return real_unlink(p);
    pthread_mutex_lock(&mu);
    int r = real_unlink(p);
    const char *rel = rel_of_path(p);
    if (r == 0 && rel) emit("U %s\n", rel);
    pthread_mutex_unlock(&mu);
    return r;
}

int rename(const char *a, const char *b) {
    init_once();
    if (out_fd < 0) return real_rename(a, b);
    pthread_mutex_lock(&mu);
    int r = real_rename(a, b);
    const char *ra = rel_of_path(a), *rb = rel_of_path(b);
    if (r == 0 && ra && rb) emit("R %s %s\n", ra, rb);
    pthread_mutex_unlock(&mu);
    return r;
}

static void after_open(const char *p, int flags, int existed, int fd) {
    const char *rel = rel_of_path(p);
    if (fd < 0 || !rel) return;
    if ((flags & O_CREAT) && !existed) emit("C %s\n", rel);
    if ((flags & O_TRUNC) && existed) emit("T %s 0\n", rel);
}

int open64(const char *p, int flags, ...) {
    init_once();
    mode_t mode = 0;
    if (flags & (O_CREAT | O_TMPFILE)) {
        va_list ap;
        va_start(ap, flags);
        mode = (mode_t)va_arg(ap, int);
        va_end(ap);
    }
    if (out_fd < 0 || !rel_of_path(p)) return real_open(p, flags, mode);
    pthread_mutex_lock(&mu);
    struct stat st;
    int existed = stat(p, &st) == 0;
    int fd = real_open(p, flags, mode);
    after_open(p, flags, existed, fd);
    pthread_mutex_unlock(&mu);
    return fd;
}
int open(const char *p, int flags, ...) {
    mode_t mode = 0;
    if (flags & (O_CREAT | O_TMPFILE)) {
        va_list ap;
        va_start(ap, flags);
        mode = (mode_t)va_arg(ap, int);
        va_end(ap);
    }
    return open64(p, flags, mode);
}

int openat64(int dirfd, const char *p, int flags, ...) {
    init_once();
    mode_t mode = 0;
    if (flags & (O_CREAT | O_TMPFILE)) {
        va_list ap;
        va_start(ap, flags);
        mode = (mode_t)va_arg(ap, int);
        va_end(ap);
    }
    if (out_fd < 0 || !p || p[0] != '/' || !rel_of_path(p)) return real_openat(dirfd, p, flags, mode);
    pthread_mutex_lock(&mu);
    struct stat st;
    int existed = stat(p, &st) == 0;
    int fd = real_openat(dirfd, p, flags, mode);
    after_open(p, flags, existed, fd);
    pthread_mutex_unlock(&mu);
    return fd;
}
int openat(int dirfd, const char *p, int flags, ...) {
    mode_t mode = 0;
    if (flags & (O_CREAT | O_TMPFILE)) {
        va_list ap;
        va_start(ap, flags);
        mode = (mode_t)va_arg(ap, int);
        va_end(ap);
    }
    return openat64(dirfd, p, flags, mode);
}
