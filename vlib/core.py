"""Shared machinery of /verif/check: build steps, audit, correspondence runner, oracle comparison,
shrinking, known findings, evidence.  Stdlib only."""
import hashlib
import json
import os
import random
import re
import subprocess
import sys
import time

VERIF = os.path.dirname(os.path.dirname(os.path.abspath(__file__)))
REPO = os.environ.get("VERIF_REPO", "/repo")
LEAN = os.path.join(VERIF, "lean")
HARNESS_DIR = os.path.join(VERIF, "harness")
TARGET = os.path.join(VERIF, ".build", "target")
HARNESS = os.path.join(TARGET, "debug", "harness")
DRIVER = os.path.join(LEAN, ".lake", "build", "bin", "driver")
WORK = os.path.join(VERIF, "work")
ALLOWED_AXIOMS = {"propext", "Classical.choice", "Quot.sound"}
ENV = dict(os.environ, CARGO_NET_OFFLINE="true")

TRUSTED_BASE_COMMON = [
    "Lean 4.33 kernel; axioms limited to propext, Classical.choice, Quot.sound (audited by #print axioms on every run)",
    "hand-written Lean model tied to the code by differential correspondence on generated + corpus inputs (testing, not proof)",
]


def log(*a):
    print(*a, flush=True)


def sh(cmd, cwd=None, timeout=None, input=None):
    p = subprocess.run(cmd, cwd=cwd, shell=isinstance(cmd, str), stdout=subprocess.PIPE,
                       stderr=subprocess.STDOUT, timeout=timeout, input=input, env=ENV, text=True)
    return p.returncode, p.stdout


# --------------------------------------------------------------------------- proof side

def strip_lean_comments(src):
    out = []
    i = 0
    depth = 0
    n = len(src)
    while i < n:
        if src.startswith("/-", i):
            depth += 1
            i += 2
        elif depth and src.startswith("-/", i):
            depth -= 1
            i += 2
        elif depth:
            i += 1
        elif src.startswith("--", i):
            while i < n and src[i] != "\n":
                i += 1
        else:
            out.append(src[i])
            i += 1
    return "".join(out)


FORBIDDEN = re.compile(r"\bsorry\b|\badmit\b|^\s*axiom\s|native_decide|bv_decide|implemented_by|\bunsafe\s|maxHeartbeats\s+0\b",
                       re.M)


def grep_audit():
    """forbidden constructs anywhere in the Lean library (comments stripped)"""
    hits = []
    for root, _, files in os.walk(os.path.join(LEAN, "RNacos")):
        for f in files:
            if f.endswith(".lean"):
                p = os.path.join(root, f)
                src = strip_lean_comments(open(p).read())
                for m in FORBIDDEN.finditer(src):
                    hits.append(f"{os.path.relpath(p, LEAN)}: {m.group(0).strip()}")
    return hits


def theorems_of(module):
    path = os.path.join(LEAN, module.replace(".", "/") + ".lean")
    src = strip_lean_comments(open(path).read())
    ns = []
    names = []
    for line in src.splitlines():
        m = re.match(r"\s*namespace\s+(\S+)", line)
        if m:
            ns.append(m.group(1))
            continue
        m = re.match(r"\s*end\s+(\S+)", line)
        if m and ns and ns[-1] == m.group(1):
            ns.pop()
            continue
        m = re.match(r"\s*(?:@\[[^\]]*\]\s*)?(?:private\s+|protected\s+)?theorem\s+(\S+)", line)
        if m:
            names.append(".".join(ns + [m.group(1)]))
    return names


def lake_build(targets):
    t = time.time()
    rc, out = sh(["lake", "build"] + targets, cwd=LEAN, timeout=3600)
    return rc, out, time.time() - t


def run_translator():
    tr = os.path.join(VERIF, "translate", "translate.py")
    if not os.path.exists(tr):
        return 0, ""
    return sh([sys.executable, tr], cwd=VERIF, timeout=300)


def audit_axioms(module, theorems):
    """returns dict theorem -> list of axioms (or None when the theorem could not be elaborated)"""
    os.makedirs(WORK, exist_ok=True)
    f = os.path.join(WORK, f"Audit_{module.replace('.', '_')}.lean")
    with open(f, "w") as fh:
        fh.write(f"import {module}\n")
        for t in theorems:
            fh.write(f"#print axioms {t}\n")
    rc, out = sh(["lake", "env", "lean", f], cwd=LEAN, timeout=1800)
    res = {}
    # output: "'name' depends on axioms: [a, b]"  or "'name' does not depend on any axioms"
    out1 = re.sub(r"\s+", " ", out)
    for t in theorems:
        m = re.search(r"'" + re.escape(t) + r"' depends on axioms: \[([^\]]*)\]", out1)
        if m:
            res[t] = [a.strip() for a in m.group(1).split(",") if a.strip()]
        elif re.search(r"'" + re.escape(t) + r"' does not depend on any axioms", out1):
            res[t] = []
        else:
            res[t] = None
    return res, out


def proof_obligations(module, extra_targets=("driver",)):
    """build + audit the property module.  Returns dict with obligations, discharged, failures."""
    info = {"module": module, "failures": []}
    rc, out = run_translator()
    if rc != 0:
        info["failures"].append("translator: " + out.strip()[-2000:])
    rc, out, dt = lake_build([module, "driver"] + [t for t in extra_targets if t != "driver"])
    info["lake_build_s"] = round(dt, 1)
    thms = theorems_of(module)
    info["theorems"] = thms
    if rc != 0:
        errs = [l for l in out.splitlines() if "error" in l.lower()][:20]
        info["failures"].append("lake build failed: " + " | ".join(errs))
        # which theorems are named in error lines
        info["build_log_tail"] = out[-4000:]
    hits = grep_audit()
    if hits:
        info["failures"].append("forbidden constructs: " + "; ".join(hits))
    discharged = 0
    axioms_used = set()
    if rc == 0:
        res, aout = audit_axioms(module, thms)
        for t, ax in res.items():
            if ax is None:
                info["failures"].append(f"audit: theorem {t} not found / not elaborated")
            elif not set(ax) <= ALLOWED_AXIOMS:
                info["failures"].append(f"audit: theorem {t} depends on {sorted(set(ax) - ALLOWED_AXIOMS)}")
            else:
                discharged += 1
                axioms_used |= set(ax)
    info["obligations"] = len(thms)
    info["discharged"] = discharged
    info["axioms_used"] = sorted(axioms_used)
    return info


# --------------------------------------------------------------------------- implementation side

def cargo_build():
    lock_src = os.path.join(REPO, "Cargo.lock")
    lock_dst = os.path.join(HARNESS_DIR, "Cargo.lock")
    if not os.path.exists(lock_dst):
        import shutil
        shutil.copy(lock_src, lock_dst)
    t = time.time()
    # the LD_PRELOAD shims are built from source on every run as well
    os.makedirs(os.path.join(VERIF, ".build"), exist_ok=True)
    for so, src, libs in (("clockshim.so", "clockshim.c", ["-ldl"]), ("fsjournal.so", "fsjournal.c", ["-ldl", "-lpthread"])):
        dst = os.path.join(VERIF, ".build", so)
        srcp = os.path.join(VERIF, "shim", src)
        if not os.path.exists(dst) or os.path.getmtime(dst) < os.path.getmtime(srcp):
            sh(["gcc", "-shared", "-fPIC", "-O2", "-o", dst, srcp] + libs, cwd=VERIF, timeout=120)
    rc, out = sh(["cargo", "build", "--offline"], cwd=HARNESS_DIR, timeout=3600)
    return rc, out, time.time() - t


class Case:
    __slots__ = ("name", "ops", "oracle", "kind")

    def __init__(self, name, ops, oracle=True, kind="random"):
        self.name = name
        self.ops = ops          # list of op lines
        self.oracle = oracle    # judge the implementation's answers by the spec oracle?
        self.kind = kind        # corpus | boundary | random | malformed | witness


def _run_lines(cmd, text, timeout=600, env=None):
    p = subprocess.run(cmd, input=text, stdout=subprocess.PIPE, stderr=subprocess.PIPE, text=True,
                       timeout=timeout, env=env or ENV)
    return p.returncode, p.stdout.splitlines(), p.stderr


def run_cases(model, cases, impl_env=None, spec_needs_impl=False, timeout=1200, jobs=1):
    """run all cases through implementation, model and spec oracle; returns per case dict"""
    text = "".join("# case %s\n%s\n" % (c.name, "\n".join(c.ops)) for c in cases)
    nlines = sum(len(c.ops) + 1 for c in cases)
    env = dict(ENV)
    if impl_env:
        env.update(impl_env)
    if jobs > 1 and len(cases) >= 2 * jobs:
        # shard the implementation run over several harness processes (cases are independent)
        from concurrent.futures import ThreadPoolExecutor
        shards = [cases[i::jobs] for i in range(jobs)]
        texts = ["".join("# case %s\n%s\n" % (c.name, "\n".join(c.ops)) for c in sh) for sh in shards]
        with ThreadPoolExecutor(max_workers=jobs) as ex:
            outs = list(ex.map(lambda t: _run_lines([HARNESS, model], t, timeout, env), texts))
        per_case = {}
        rc_i, err_i = 0, ""
        for sh, (rc, lines, err) in zip(shards, outs):
            rc_i = rc_i or rc
            err_i += err[-500:]
            pos = 0
            for c in sh:
                n = len(c.ops) + 1
                per_case[id(c)] = lines[pos:pos + n]
                pos += n
        impl = []
        for c in cases:
            got = per_case.get(id(c), [])
            impl.extend(got + ["<process died>"] * (len(c.ops) + 1 - len(got)) if len(got) < len(c.ops) + 1 else got)
    else:
        rc_i, impl, err_i = _run_lines([HARNESS, model], text, timeout, env)
    rc_m, mod, err_m = _run_lines([DRIVER, model], text, timeout)
    if spec_needs_impl:
        # interleave: op line, then "> impl answer"
        tl = text.splitlines()
        inter = []
        for k, l in enumerate(tl):
            inter.append(l)
            if not l.startswith("#"):
                inter.append("> " + (impl[k] if k < len(impl) else "<no-answer>"))
        rc_s, spec, err_s = _run_lines([DRIVER, model, "--spec"], "\n".join(inter) + "\n", timeout)
    else:
        rc_s, spec, err_s = _run_lines([DRIVER, model, "--spec"], text, timeout)
    res = []
    pos = 0
    for c in cases:
        n = len(c.ops) + 1
        res.append({
            "case": c,
            "impl": impl[pos + 1:pos + n] if len(impl) >= pos + n else impl[pos + 1:] + ["<process died>"],
            "model": mod[pos + 1:pos + n],
            "spec": spec[pos + 1:pos + n],
        })
        pos += n
    crashed = (len(impl) != nlines) or rc_i != 0
    return res, {"impl_rc": rc_i, "impl_stderr": err_i[-2000:], "model_rc": rc_m, "model_stderr": err_m[-2000:],
                 "spec_rc": rc_s, "spec_stderr": err_s[-2000:], "impl_crashed": crashed,
                 "model_lines_ok": len(mod) == nlines, "spec_lines_ok": len(spec) == nlines}


# ids of the open known findings of the property being checked (set by the runner): a spec line "spec KNOWN <id> ..."
# attributes one observation to such a finding; for an id that is not open it is a rejection like any other
OPEN_IDS = set()


def spec_accepts(spec_line, impl_line):
    """spec line: '-' = no opinion; tokens '*' are wildcards; otherwise token-wise equality"""
    if spec_line.startswith("spec KNOWN"):
        w = spec_line.split()
        return len(w) > 2 and w[2] in OPEN_IDS
    if spec_line.strip() == "-":
        return True
    if spec_line.startswith("spec ok") or spec_line.startswith("spec CORR"):
        return True      # "spec CORR": a model that is executed with the implementation's answers disagrees - correspondence
    if spec_line.startswith("spec FAIL"):
        return False
    st = spec_line.split()
    it = impl_line.split()
    if len(st) != len(it):
        return False
    return all(a == "*" or a == b for a, b in zip(st, it))


def match_line(pattern, line):
    """token-wise equality; a `*` inside a pattern token matches any suffix of that token"""
    pt, lt = pattern.split(), line.split()
    if pt == ["*"]:
        return True               # the model makes no statement about this answer
    if pt and pt[-1] == "**":     # any tail
        pt = pt[:-1]
        lt = lt[:len(pt)]
    if len(pt) != len(lt):
        return False
    for a, b in zip(pt, lt):
        if a == b or a == "*":
            continue
        if a.endswith("*") and b.startswith(a[:-1]):
            continue
        return False
    return True


def judge(r):
    """returns (corr_ok, oracle_ok, first_bad_op_index)"""
    c = r["case"]
    corr_ok, oracle_ok, bad = True, True, None
    for k in range(len(c.ops)):
        i = r["impl"][k] if k < len(r["impl"]) else "<missing>"
        m = r["model"][k] if k < len(r["model"]) else "<missing>"
        s = r["spec"][k] if k < len(r["spec"]) else "-"
        if ((i != m and not match_line(m, i)) or s.startswith("spec CORR")) and corr_ok:
            corr_ok = False
            bad = k if bad is None else bad
        if c.oracle and not spec_accepts(s, i) and oracle_ok:
            oracle_ok = False
            bad = k if bad is None else min(bad, k)
    return corr_ok, oracle_ok, bad


def shrink(model, case, pred, impl_env=None, spec_needs_impl=False, budget=150, avoid=None):
    """delta-debug the op list while pred(result) stays true. pred gets the judge() triple.
    avoid(case) = True for candidates that must not be considered (the region of an open known finding: a case that
    fails for a new reason must not be minimised into one that fails for the known one)"""
    ops = list(case.ops)
    n = 2
    runs = 0
    while len(ops) >= 2 and runs < budget:
        chunk = max(1, len(ops) // n)
        reduced = False
        for i in range(0, len(ops), chunk):
            cand = ops[:i] + ops[i + chunk:]
            if not cand:
                continue
            if avoid is not None and avoid(Case(case.name, cand, case.oracle, case.kind)):
                continue
            runs += 1
            res, _ = run_cases(model, [Case(case.name, cand, case.oracle, case.kind)], impl_env, spec_needs_impl)
            if pred(judge(res[0])):
                ops = cand
                n = max(n - 1, 2)
                reduced = True
                break
            if runs >= budget:
                break
        if not reduced:
            if chunk == 1:
                break
            n = min(len(ops), n * 2)
    return Case(case.name, ops, case.oracle, case.kind)


def write_replay(prop, seed, tag, case, res, note):
    d = os.path.join(WORK, "replays")
    os.makedirs(d, exist_ok=True)
    safe = re.sub(r"[^A-Za-z0-9_.-]", "_", case.name if case else tag)
    p = os.path.join(d, f"{prop}-{seed}-{safe}.replay")
    with open(p, "w") as f:
        f.write(f"# property {prop}\n# note {note}\n")
        if case is not None:
            f.write(f"# model-ops (feed to: harness <model> / driver <model> / driver <model> --spec)\n")
            f.write("# case %s\n" % case.name)
            for k, op in enumerate(case.ops):
                f.write(op + "\n")
            if res is not None:
                f.write("# --- per op: impl | model | spec\n")
                for k, op in enumerate(case.ops):
                    i = res["impl"][k] if k < len(res["impl"]) else "<missing>"
                    m = res["model"][k] if k < len(res["model"]) else "<missing>"
                    s = res["spec"][k] if k < len(res["spec"]) else "-"
                    f.write(f"#   [{k}] impl : {i[:400]}\n#       model: {m[:400]}\n#       spec : {s[:400]}\n")
    return p


# --------------------------------------------------------------------------- known findings

def load_known_findings(prop):
    p = os.path.join(VERIF, "known_findings.json")
    if not os.path.exists(p):
        return []
    data = json.load(open(p))
    return [e for e in data.get("findings", []) if e.get("property") == prop]


# --------------------------------------------------------------------------- evidence

def case_hash(c):
    return hashlib.sha1("\n".join(c.ops).encode()).hexdigest()


def write_evidence(prop, tier, seed, level, coverage, assumptions, wall, violations):
    os.makedirs(os.path.join(VERIF, "evidence"), exist_ok=True)
    ev = {"property_id": prop, "tier": tier, "seed": seed, "level": level, "coverage": coverage,
          "assumptions": assumptions, "wall_s": round(wall, 2), "violations": violations}
    with open(os.path.join(VERIF, "evidence", f"{prop}.json"), "w") as f:
        json.dump(ev, f, indent=1, sort_keys=True)
        f.write("\n")
    return ev


class Rng(random.Random):
    pass
