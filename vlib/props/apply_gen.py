"""Generators for the model `apply` (C07/C01): three complete nodes fed the same committed requests."""
from ..core import Case

KINDS = [("cfgset", 30), ("cfgempty", 2), ("cfgrm", 8), ("cfgfull", 6), ("nsset", 5), ("nsadd", 3), ("nsupd", 3), ("nsdel", 3),
         ("tblset", 8), ("tblrm", 3), ("tblnext", 3), ("tblseq", 2), ("tblauto", 2), ("tbldrop", 1),
         ("seqnext", 6), ("seqrange", 4), ("seqset", 2), ("seqrm", 2),
         ("inst", 6), ("instupd", 4), ("instrm", 3), ("nodeaddr", 2), ("members", 2)]


def region_metadata(case):
    """known finding F23: a persistent-instance request that changes the metadata of an instance key"""
    return any(o.startswith(("req instm", "req instupdm")) for o in case.ops)


def _ns_tenant_cfg(op):
    w = op.split()
    return len(w) == 4 and w[0] == "req" and w[1].startswith("cfg") and int(w[3]) % 3 == 2


def region_ns_upgrade(case):
    """known finding F32: a namespace AddOnly / Update (which only act on an existing entry) together with a
    configuration in a `ns<k>` tenant, whose weak namespace entry is created asynchronously by the config actor"""
    has_up = any(o.startswith(("req nsadd", "req nsupd", "req nsdel")) for o in case.ops)
    return has_up and any(_ns_tenant_cfg(o) for o in case.ops)


def avoid_ns_upgrade(ops):
    """keep a generated history out of F32's region: when it contains AddOnly / Update / Delete of namespaces, its
    configurations stay in the t0/t1 tenants"""
    if not any(o.startswith(("req nsadd", "req nsupd", "req nsdel")) for o in ops):
        return ops
    out = []
    for o in ops:
        if _ns_tenant_cfg(o):
            w = o.split()
            o = "%s %s %s %d" % (w[0], w[1], w[2], int(w[3]) + 1)
        out.append(o)
    return out


def pick_kind(rng, only=None):
    ks = [(k, w) for k, w in KINDS if only is None or k.startswith(only)]
    tot = sum(w for _, w in ks)
    x = rng.randrange(tot)
    for k, w in ks:
        if x < w:
            return k
        x -= w
    return ks[-1][0]


def reqs(rng, n, only=None):
    out = []
    for _ in range(n):
        if only in (None, "cfg") and rng.random() < 0.15:
            # a publish whose history id is drawn by a node's own sequence, as a leader does (mostly by the node that
            # is compacted and restarted)
            out.append("reqd %s %d %d" % (rng.choice(["R", "R", "R", "L"]), rng.randrange(16), rng.randrange(40)))
        else:
            out.append("req %s %d %d" % (pick_kind(rng, only), rng.randrange(16), rng.randrange(40)))
    return out


def splits(rng, n):
    out = []
    while n > 0:
        k = min(n, rng.choice([1, 1, 2, 3, 5, 8, 20]))
        out.append(k)
        n -= k
    return ",".join(map(str, out))


def gen_paths(rng, tier):
    """C07: the same sequence through leader path, follower batches and (R) restart replay"""
    cases = []
    big = tier == "thorough"
    for i in range(300 if big else 36):
        ops = ["start"]
        pending = 0
        for _ in range(rng.randrange(2, 7)):
            n = rng.randrange(1, 25)
            ops += reqs(rng, n, only=rng.choice([None, None, None, "cfg", "seq", "tbl", "ns", "inst"]))
            pending += n
            if rng.random() < 0.7:
                ops.append("flush " + splits(rng, pending))
                pending = 0
                ops.append("dump")
                r = rng.random()
                if r < 0.3:
                    ops.append("restart R")       # replay of the whole log (no snapshot yet) or snapshot + suffix
                elif r < 0.45:
                    ops += ["compact R"]
                elif r < 0.55:
                    ops += ["restart F"]
        if pending:
            ops.append("flush " + splits(rng, pending))
        ops += ["dump", "restart R", "restart F", "dump"]
        cases.append(Case("paths-%d" % i, avoid_ns_upgrade(ops), True, "random"))
    # every kind on its own, through all three paths
    for k, _ in KINDS:
        ops = ["start"] + ["req %s %d %d" % (k, a, b) for a, b in [(0, 1), (1, 2), (0, 3), (5, 7), (1, 2)]]
        ops += ["flush 2,1,2", "dump", "restart R", "dump"]
        cases.append(Case("kind-%s" % k, ops, True, "exhaustive"))
    return cases


def gen_restart(rng, tier):
    """C01: compactions at arbitrary points, interrupted compactions, graceful and abrupt stops"""
    cases = []
    big = tier == "thorough"
    for i in range(300 if big else 36):
        ops = ["start"]
        pending = 0
        for _ in range(rng.randrange(3, 9)):
            n = rng.randrange(1, 20)
            ops += reqs(rng, n, only=rng.choice([None, None, "cfg", "inst", "ns", "tbl", "seq"]))
            pending += n
            ops.append("flush " + splits(rng, pending))
            pending = 0
            r = rng.random()
            if r < 0.3:
                ops.append("compact R")
            elif r < 0.45:
                ops += ["halfcompact R", "crash R"]
            elif r < 0.6:
                ops += ["dump", "restart R"]
            elif r < 0.7:
                ops += ["dump", "crash R"]
            elif r < 0.8:
                ops += ["compact F", "restart F"]
            if rng.random() < 0.4:
                ops.append("dump")
        ops += ["dump", "restart R", "dump", "compact R", "restart R", "restart F", "dump"]
        cases.append(Case("restart-%d" % i, avoid_ns_upgrade(ops), True, "random"))
    # directed: a compaction in the middle of a block of history ids on the node that draws them, more draws, restart, draw
    for extra in (1, 3):
        ops = ["start", "reqd R 1 1", "reqd R 2 2", "flush 10", "compact R"] + ["reqd R %d %d" % (j, j) for j in range(extra)]
        ops += ["flush 10", "dump", "restart R", "dump", "reqd R 3 3", "flush 10", "dump"]
        cases.append(Case("midblock-%d" % extra, ops, True, "boundary"))
    # directed: a configuration of several MiB followed by further writes (its log record is larger than the steps in which
    # a log file grows), then a restart that has to replay it, with and without a compaction in between
    for name, mid in (("replayed", []), ("compacted-after", ["compact R"]), ("two", ["req cfgbig 9 2", "req cfgset 2 2"])):
        ops = ["start", "req cfgset 0 1", "req cfgbig 1 1", "req cfgset 2 1", "req cfgset 3 4", "flush 10"] + mid + \
              ["flush 10", "dump", "restart R", "dump", "req cfgset 4 4", "flush 10", "restart R", "restart F", "dump"]
        cases.append(Case("large-value-" + name, ops, True, "boundary"))
    # directed: a user-created namespace that is also in use (it holds a configuration) is compacted and the node restarted
    for k in (1, 3):
        ops = ["start", "req nsset %d 7" % k, "req cfgset %d 2" % k, "req cfgset %d 5" % (k + 5), "flush 10", "dump", "compact R",
               "restart R", "dump", "req cfgrm %d 2" % k, "flush 10", "compact R", "restart R", "dump"]
        cases.append(Case("user-namespace-in-use-%d" % k, ops, True, "boundary"))
    # directed: an interrupted compaction whose file is longer than the next successful one, for every component that
    # comes late in the snapshot (the removed item is then exactly the stale tail)
    for add, rm in [("inst 1 1", "instrm 1 0"), ("tblset 0 1", "tblrm 0 0"), ("nsset 1 1", "nsdel 1 0"), ("cfgset 0 1", "cfgrm 0 0")]:
        for extra in (0, 3):
            ops = ["start", "req cfgset 0 1"] + reqs(rng, extra, only="cfg") + ["req " + add, "flush 100", "halfcompact R", "crash R",
                                                                               "req " + rm, "flush 100", "dump", "compact R", "restart R", "dump"]
            cases.append(Case("partial-%s-%d" % (add.split()[0], extra), ops, True, "boundary"))
    return cases


def region_install_before_restart(case):
    """known finding F10: the joiner is compared with the leader after an installation and before its restart"""
    fresh = False
    for o in case.ops:
        if o.startswith("install"):
            fresh = True
        elif o == "restart N" or o == "crash N":
            fresh = False
        elif o == "dumpn" and fresh:
            return True
    return False


def gen_install(rng, tier):
    """C08: node N receives the leader's snapshot through create_snapshot / finalize_snapshot_installation - as a
    first-time joiner (empty log) and as a node that fell behind (log and state below the snapshot) - then the
    entries after it, and restarts"""
    cases = []
    big = tier == "thorough"
    for i in range(200 if big else 30):
        ops = ["start"]
        # the membership and the node addresses travel in the snapshot's header
        if rng.random() < 0.8:
            ops += ["req members %d 1" % rng.randrange(3), "req nodeaddr %d %d" % (rng.randrange(4), rng.randrange(40))]
        ops += reqs(rng, rng.randrange(1, 25), only=rng.choice([None, None, "cfg", "ns", "tbl", "seq", "inst"]))
        ops += ["flush 100", "compact L"]
        behind = 0
        for rnd in range(rng.randrange(1, 4)):
            if rng.random() < 0.5:
                n = rng.randrange(1, 12)
                ops += reqs(rng, n) + ["flush 100"]
                behind += n
                if rng.random() < 0.5:
                    ops.append("compact L")
                    # the snapshot now covers everything
            r = rng.random()
            if r < 0.15 and behind:
                # the joiner's log runs ahead of the leader's snapshot when it is installed (async-raft: delete_through =
                # Some(index)); the leader then sends the entries after the snapshot again
                ops += ["catchup " + splits(rng, behind), "install L N", "catchup " + splits(rng, behind),
                        rng.choice(["restart N", "crash N"]), "dumpn"]
                behind = 0
            elif r < 0.7:
                ops.append("install L N")
                if ops[-2] == "compact L":
                    behind = 0
                if behind or rng.random() < 0.3:
                    ops.append("catchup " + splits(rng, max(behind, 1)))
                    behind = 0
                ops += [rng.choice(["restart N", "restart N", "crash N"]), "dumpn"]
            else:
                ops += ["catchup " + splits(rng, max(behind, 1))]
                behind = 0
                if not region_install_before_restart(Case("x", ops + ["dumpn"])):
                    ops.append("dumpn")
                ops += ["restart N", "dumpn"]
        cases.append(Case("install-%d" % i, avoid_ns_upgrade(ops), True, "random"))
    # directed: first-time joiner that applies nothing after the installation; a joiner that fell behind
    d1 = ["start", "req members 1 1", "req nodeaddr 2 7", "req cfgset 1 1", "req nsset 1 1", "req tblset 0 1", "flush 10", "compact L", "install L N", "restart N", "dumpn",
          "restart N", "dumpn"]
    d2 = ["start", "req cfgset 1 1", "req cfgset 2 2", "flush 10", "compact L", "install L N", "catchup 1", "restart N", "dumpn",
          "req cfgset 3 3", "req cfgrm 1 0", "req cfgset 4 4", "flush 10", "compact L", "req cfgset 5 5", "flush 10",
          "install L N", "catchup 1", "restart N", "dumpn", "req cfgset 6 6", "flush 1", "catchup 1", "restart N", "dumpn"]
    cases.append(Case("install-first-joiner", d1, True, "boundary"))
    d3 = ["start", "req cfgset 1 1", "req cfgset 2 2", "req cfgset 3 3", "flush 10", "compact L", "req cfgset 4 4", "req cfgset 5 5",
          "flush 10", "catchup 10", "install L N", "catchup 2", "restart N", "dumpn", "req cfgset 6 6", "flush 1", "catchup 1",
          "restart N", "dumpn"]
    cases.append(Case("install-log-ahead", d3, True, "boundary"))
    cases.append(Case("install-fell-behind", d2, True, "boundary"))
    return cases
