"""C17 — console: every API needs a login session; roles cannot exceed their grants."""
import json
import os
from ..core import Case, VERIF
from ..runner import Prop, ModelRun

ROLESETS = ["", "0", "1", "2", "0,1", "1,2", "2,0", "9", "EMPTY", "2,9", "manager", "00"]
SESSIONS = ["none", "empty", "zzz-garbage", "sess-0", "sess-1", "sess-2", "sess-12", "sess-x", "sess-none"]


def tables():
    return json.load(open(os.path.join(VERIF, "work", "gen_tables.json")))


def gen_perm(rng, tier):
    t = tables()
    paths = set(p for p, _, _ in t["console_routes"])
    for _, entries in t["perm"]["modules"]:
        for p, _ in entries:
            paths.add(p)
    paths = sorted(paths)
    near = []
    for p in paths:
        if len(p) > 2:
            near += [p + "/", p[:-1], p.upper(), p + "x", p.replace("/v2/", "/v3/")]
    near += ["EMPTY", "/", "//", "/rnacos/api/console", "/rnacos/api/console/v2"]
    cases = []
    allp = paths + sorted(set(near))
    for i in range(0, len(allp), 8):
        ops = []
        for p in allp[i:i + 8]:
            for m in ["GET", "POST", "PUT", "DELETE", "EMPTY", "get"]:
                for rs in ROLESETS:
                    ops.append("perm roles=%s %s %s" % (rs, m, p))
        cases.append(Case("perm-%d" % i, ops, True, "exhaustive"))
    return cases


def gen_console(rng, tier):
    t = tables()
    cases = []
    routes = t["console_routes"]
    big = tier == "thorough"
    for i, (p, m, h) in enumerate(routes):
        ops = []
        sess = SESSIONS if big else ["none", "zzz-garbage", "sess-2", "sess-none", rng.choice(["sess-0", "sess-1", "sess-12", "sess-x", "empty"])]
        for s in sess:
            # never call a mutating handler with a session that is allowed to run it on the shared node: the
            # middleware's verdict is what is compared, and `served` is observable from a refused validation too
            ops.append("chttp %s %s session=%s h=%s" % (m, p, s, h))
        for sp in [p + "/", p.upper(), p.replace("/console/", "/console//", 1), p + ".js", p + "/x.css",
                   p[:-1] + "%%%02X" % ord(p[-1]), p + "?v=.js", p + "?pageNo=1&_=a.css"]:
            ops.append("chttp %s %s session=none" % (m, sp))
            if big:
                ops.append("chttp %s %s session=sess-2 h=%s" % (m, sp, h))
        cases.append(Case("console-%d-%s" % (i, p.rsplit("/", 2)[-2] + "_" + p.rsplit("/", 1)[-1]), ops, True, "sweep"))
    return cases


class C17(Prop):
    id = "C17"
    lean_module = "RNacos.Props.C17"
    level = "proof"
    design_ref = "DESIGN.md §7 C17"
    models = [
        ModelRun("perm", gen_perm, lambda c: len(c.ops) >= 2, spec_needs_impl=True, rule=(
            "exhaustive product: every console route path + every granted path + near-miss spellings x methods "
            "{GET,POST,PUT,DELETE,'',get} x 12 role sets (single, multiple, unknown, empty string) through the real "
            "UserRole::match_url_by_roles vs the model over the generated tables")),
        ModelRun("console", gen_console, lambda c: len(c.ops) >= 2, spec_needs_impl=True, rule=(
            "every registered console route x method x session state (none, empty, garbage, one session per role, "
            "two roles, unknown role, no role) + 8 spellings (trailing slash, upper case, double slash, .js / .css suffix, "
            "percent-encoded last letter, a query string that ends in a static-file suffix) through the real CheckLogin middleware around console_config in-process; "
            "oracle: an API route outside the login exceptions is never served (reached) without a session")),
    ]
    trusted_base = [
        "hand model RNacos/Model/Auth.lean over tables re-extracted by translate/translate.py (role/module/route tables, "
        "IGNORE_CHECK_LOGIN, static-file regex in recognised shape)",
        "the classification of handlers as mutating / admin-only is a hand-written oracle by handler name (DESIGN.md App. C)",
        "sessions are injected into the node's DirectCacheManager (the login flow itself is not exercised)",
    ]
    assumptions = ["main.rs wraps console_config in CheckLogin exactly as the harness does"]
