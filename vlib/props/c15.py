"""C15 — registry converges: after quiescence every node returns the same instances."""
from ..runner import Prop, ModelRun
from . import cluster_gen


class C15(Prop):
    id = "C15"
    lean_module = "RNacos.Props.C15"
    level = "proof"
    design_ref = "DESIGN.md §7 C15"
    models = [ModelRun("cluster", cluster_gen.gen_registry, lambda c: any(o.startswith("listall") for o in c.ops),
                       spec_needs_impl=True, jobs=2, shrinkable=False,
                       regions={"cluster.raft_path_conflict": cluster_gen.region_raft_conflict},
                       search=lambda rng, b: cluster_gen.gen_registry(rng, "thorough")[:b], rule=(
        "real rnacos processes on loopback (3 nodes): 6-14 HTTP registrations / deregistrations of persistent and ephemeral "
        "instances of two services addressed to arbitrary nodes, a settling time of 4 s (sync interval 500 ms + margin), then "
        "GET /nacos/v1/ns/instance/list on every node; one directed scenario in both tiers replaces an instance by another of "
        "the same service back to back through each node (a sync batch with a removal and an update), another has "
        "heart-beating HTTP clients of which one deregisters right after a beat and compares 18 s later (after the owner's "
        "15 s heartbeat flush); gRPC clients (nacos_rust_client) hold instances through connections to two nodes, the node of one "
        "is killed (its instances must be gone from the others after 30 s) and restarted (everybody agrees again); an address "
        "changes its persistence class by re-registration in both directions and must stay listed; `up` waits until a probe "
        "instance registered through every node is listed by all nodes (complete naming views), the lists are collected until "
        "the live nodes agree, for at most 8 s; in half of the thorough scenarios a node is killed, a registration is "
        "made meanwhile, the node is restarted and the lists are compared again. Oracle: every live node returns the same "
        "instances (address, health, enabled, weight) and they are the registered ones. Two operations on one address of "
        "which one goes through Raft are kept 1.5 s apart (region of known finding F33). non-trivial = contains a comparison"))]
    trusted_base = [
        "gRPC clients are the nacos_rust_client crate (a dependency of r-nacos itself); one directed scenario kills the node a "
        "client is connected to and demands that its instances are gone from the other nodes after 30 s, and that all agree "
        "after the node is back",
        "settling times are generous bounds; 'eventually' is explored, not proved",
    ]
    assumptions = ["ephemeral HTTP instances are compared before their heartbeat time-out (15 s)"]
