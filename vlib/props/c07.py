"""C07 — leader apply, follower replication and restart replay yield the same state."""
from ..runner import Prop, ModelRun
from . import apply_gen


class C07(Prop):
    id = "C07"
    lean_module = "RNacos.Props.C07"
    level = "proof"
    design_ref = "DESIGN.md §7 C07"
    models = [ModelRun("apply", apply_gen.gen_paths, lambda c: sum(1 for o in c.ops if o.startswith("req")) >= 3 and "dump" in c.ops,
                       spec_needs_impl=True, jobs=8, shrinkable=True,
                       regions={"naming.metadata_changes": apply_gen.region_metadata,
                                "namespace.upgrade_of_weak_entry": apply_gen.region_ns_upgrade},
                       search=lambda rng, b: apply_gen.gen_paths(rng, "thorough")[:b], rule=(
        "three complete nodes as child processes (real config_factory wiring: all seven state-machine actors, raft file "
        "store, StateApplyManager, RaftDataHandler; Raft left un-initialised) driven through their RaftStorage as the raft "
        "library drives it: node L append_entry_to_log + apply_entry_to_state_machine per request, node F replicate_to_log "
        "+ replicate_to_state_machine in random batch splits (1..20), node R like L plus compactions and restarts "
        "(snapshot load + load_log). Request sequences over 22 request kinds covering all 11 ClientRequest variants "
        "(config set/remove/full value, namespace set/add/update/delete, table set/remove/next-id/set-seq/auto-id/drop "
        "on the user and cache tables, sequence next/range/set/remove, persistent instance register/update/remove, node "
        "address, members) with colliding keys; every kind also alone. Oracle: the three nodes' dumps are equal - served "
        "configuration values with md5/type/description/history through ConfigCmd queries, and every component's "
        "snapshot records. non-trivial = >=3 requests and a dump"))]
    trusted_base = [
        "the dispatch tables are re-extracted from raftdata.rs by /verif/translate/translate.py (purpose-built recogniser "
        "of the three match expressions; an unknown shape is an error); components are arbitrary in the theorems",
        "the harness calls the RaftStorage methods in the order async-raft does (append before apply, replicate_to_log "
        "before replicate_to_state_machine); async-raft itself is not exercised here",
        "MCP and cache requests are not generated (their parameter types are large); their rows are covered by the "
        "table theorem only",
    ]
    assumptions = ["committed sequences contain no malformed ConfigFullValue payload (they are produced by to_bytes); the "
                   "divergence for a malformed one is a visible theorem (malformed_request_diverges)",
                   "each component processes its mailbox in order (actix)"]
