"""C04 — Raft store is crash-consistent at every file-write boundary."""
from ..core import Case
from ..runner import Prop, ModelRun


def gen_crash(rng, tier):
    cases = []
    big = tier == "thorough"
    geoms = ["4,64", "4,64", "3,100", "5,64", "8,128"]
    for i in range(60 if big else 10):
        geom = rng.choice(geoms)
        ops = ["begin geom=" + geom]
        nxt, term, seed, vote, applied = 1, 1, 0, 0, 0
        floor = 1
        for _ in range(rng.randrange(4, 12 if big else 9)):
            r = rng.random()
            if r < 0.4:
                k = rng.choice([1, 1, 2, 3, 5, 9, 20, 47] if big else [1, 1, 2, 3, 5, 9])
                size = rng.choice([0, 5, 5, 40, 300])
                if k == 1 and rng.random() < 0.5:
                    ops.append("a %d %d %d %d" % (nxt, term, size, seed))
                else:
                    ops.append("b %d %d %d %d %d" % (nxt, term, k, size, seed))
                nxt += k
                seed += k
            elif r < 0.55 and nxt > floor:
                k = rng.randrange(max(floor, applied + 1), nxt + 1)
                ops.append("del %d" % k)
                nxt = min(nxt, k)
            elif r < 0.7:
                term += rng.choice([0, 1, 2])
                vote = rng.choice([0, 1, 2, 3])
                ops.append("hs %d %d" % (term, vote))
            elif r < 0.82 and nxt - 1 > applied:
                applied = rng.randrange(applied + 1, nxt)
                ops.append("applied %d" % applied)
            elif r < 0.92:
                ops.append("settle")
            else:
                if rng.random() < 0.3 and nxt > 3:
                    ops.append("a %d %d 3 %d" % (nxt + 2, term, seed))     # rejected append
                    seed += 1
        ops.append("settle")
        ops.append("enumerate probe=%d geom=%s" % (rng.choice([1, 5, 9, 13]), geom))
        cases.append(Case("crash-%d" % i, ops, True, "random"))
    # directed: snapshots are registered (the file written through the manager's writer, `CompleteSnapshot`: older snapshot
    # files unlinked, catalogue rewritten) between appends; at every prefix the snapshot a start would load - the last one
    # the catalogue names - must have its file
    for nsn in ((3, 4) if not big else (2, 3, 4, 5)):
        ops = ["begin geom=4,64", "hs 1 1", "b 1 1 6 5 0"]
        for j in range(nsn):
            ops += ["applied %d" % (4 + 2 * j), "snap %d" % (4 + 2 * j), "a %d 1 5 %d" % (7 + 2 * j, 100 + j), "a %d 1 5 %d" % (8 + 2 * j, 200 + j)]
            if j % 2 == 1:
                ops.append("settle")
        ops += ["settle", "enumerate probe=3 geom=4,64"]
        cases.append(Case("snapshots-%d" % nsn, ops, True, "directed"))
    # directed: fill index steps exactly, roll over, cut across files
    for geom, per in (("4,64", 44), ("3,100", 60)):
        ops = ["begin geom=" + geom, "hs 1 1", "b 1 1 %d 5 0" % (per - 1), "a %d 1 5 900" % per, "a %d 1 5 901" % (per + 1),
               "settle", "applied %d" % (per - 3), "b %d 2 7 40 1000" % (per + 2), "del %d" % (per - 2), "a %d 3 9 2000" % (per - 2),
               "settle", "enumerate probe=9 geom=" + geom]
        cases.append(Case("rollover-%s" % geom.replace(",", "_"), ops, True, "boundary"))
    return cases


class C04(Prop):
    id = "C04"
    lean_module = "RNacos.Props.C04"
    level = "fault_enumeration"
    design_ref = "DESIGN.md §7 C04"
    models = [ModelRun("crash", gen_crash, lambda c: any(o.startswith("enumerate") for o in c.ops) and len(c.ops) >= 5,
                       spec_needs_impl=True, jobs=3, shrinkable=False,
                       search=lambda rng, b: gen_crash(rng, "thorough")[:b], rule=(
        "the real FileStore (index + log managers, log actors, snapshot manager) runs a history of appends, batches that "
        "roll over into new log files (small index geometry), truncations incl. across files, hard-state saves, "
        "last-applied saves and flush points under an LD_PRELOAD interposer that journals every write / ftruncate / "
        "create / unlink / rename it issues under the data directory, in kernel order, with acknowledgement markers. Then "
        "EVERY prefix of that journal is materialised as a directory image and opened by the real recovery code in a "
        "fresh process; what it exposes (initial state, all entries) is judged by the oracle CrashOK, after which 1-13 "
        "entries are appended, the store is restarted again and re-read (usability). non-trivial = a history of >=3 "
        "operations with its enumeration"))]
    trusted_base = [
        "the interposer /verif/shim/fsjournal.c (write, pwrite, ftruncate, open/openat with O_CREAT/O_TRUNC, unlink, "
        "rename; offsets from lseek) - mutations through other calls (mmap, io_uring, sendfile) would be missed; the "
        "store uses none",
        "crash model of the property: process death with the OS surviving, each write call atomic, program order",
        "the specification of the log is RNacos/Model/LogStore.lean (a list)",
    ]
    assumptions = ["of compaction only the registration of snapshots is part of the enumerated histories (op snap: file "
                   "through the manager's writer, CompleteSnapshot with its unlinks and catalogue write; every prefix must "
                   "leave the catalogue's last snapshot on disk); the compaction pointer in the log and snapshot "
                   "installation are exercised by C01's / C08's restart correspondence, not prefix by prefix"]
