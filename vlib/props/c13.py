"""C13 — ephemeral HTTP instances expire without heartbeats, never while heart-beating."""
from ..core import Case
from ..runner import Prop, ModelRun
from . import naming_gen as g


def gen(rng, tier):
    cases = []
    big = tier == "thorough"
    for i in range(5000 if big else 400):
        cases.append(Case("tl-%d" % i, g.gen_timeline(rng, rng.randrange(1, 4)), True, "random"))
    # exact boundaries of the two time-outs (18 000 / 33 000 ms) for a single silent instance
    for d1 in (17999, 18000, 18001):
        for d2 in (32999, 33000, 33001, 40000):
            ops = ["upd svc=ns|g|s1 ip=10.0.0.1 port=80 eph=1 grpc=0 fc=0 cid=- healthy=1 en=1 w=1000 tag=- sync=0 now=1000",
                   "timecheck now=%d" % (1000 + d1), "all svc=ns|g|s1",
                   "timecheck now=%d" % (1000 + d2), "all svc=ns|g|s1",
                   "timecheck now=%d" % (1000 + d2 + 2000), "all svc=ns|g|s1"]
            cases.append(Case("edge-%d-%d" % (d1, d2), ops, True, "boundary"))
    # a persistent (or gRPC-connected) instance whose host probe fails is unhealthy, never expired - however long ago it
    # was last modified and whether or not the probe succeeds again before the time check
    for kind, eph, grpc, cid in (("persistent", 0, 0, "-"), ("grpc", 1, 1, "1_c1")):
        for gap in (1000, 20000, 33000, 40000, 100000):
            for again in (None, 1, 0):
                t0 = 1000
                ops = ["upd svc=ns|g|s1 ip=10.0.0.1 port=80 eph=%d grpc=%d fc=0 cid=%s healthy=1 en=1 w=1000 tag=- sync=0 now=%d" % (eph, grpc, cid, t0),
                       "upd svc=ns|g|s1 ip=10.0.0.2 port=80 eph=1 grpc=0 fc=0 cid=- healthy=1 en=1 w=1000 tag=- sync=0 now=%d" % t0,
                       "probe svc=ns|g|s1 ip=10.0.0.1 port=80 ok=0 now=%d" % (t0 + gap)]
                if again is not None:
                    ops.append("probe svc=ns|g|s1 ip=10.0.0.1 port=80 ok=%d now=%d" % (again, t0 + gap + 500))
                ops += ["timecheck now=%d" % (t0 + gap + 1000), "all svc=ns|g|s1",
                        "timecheck now=%d" % (t0 + gap + 34000), "all svc=ns|g|s1",
                        "timecheck now=%d" % (t0 + gap + 36000), "all svc=ns|g|s1", "audit"]
                cases.append(Case("probe-%s-%d-%s" % (kind, gap, again), ops, True, "directed"))
    # the cluster grows and the process range moves: an HTTP instance that this node registered (its entries in the
    # time-out queues live here and nowhere else) belongs to a service that is no longer in this node's range - it must
    # still be marked unhealthy and removed when it falls silent; a beating neighbour and an in-range service as controls
    for when in ("before", "after"):
        t0 = 1000
        reg = ["upd svc=ns|g|s9-out ip=10.0.0.1 port=80 eph=1 grpc=0 fc=0 cid=- healthy=1 en=1 w=1000 tag=- sync=0 now=%d" % t0,
               "upd svc=ns|g|s9-out ip=10.0.0.2 port=80 eph=1 grpc=0 fc=0 cid=- healthy=1 en=1 w=1000 tag=- sync=0 now=%d" % t0,
               "upd svc=ns|g|s1 ip=10.0.0.3 port=8080 eph=1 grpc=0 fc=0 cid=- healthy=1 en=1 w=1000 tag=- sync=0 now=%d" % t0]
        rng2 = ["range2 in=ns|g|s1 out=ns|g|s9-out now=%d" % (t0 + 10)]
        ops = (rng2 + reg) if when == "after" else (reg + rng2)
        for t in (10000, 19000, 28000, 34500, 37000):
            if t < 30000:
                ops.append("upd svc=ns|g|s9-out ip=10.0.0.2 port=80 eph=1 grpc=0 fc=0 cid=- healthy=1 en=1 w=1000 tag=none sync=0 now=%d" % (t0 + t - 500))
            ops += ["timecheck now=%d" % (t0 + t), "all svc=ns|g|s9-out", "all svc=ns|g|s1"]
        ops.append("audit")
        cases.append(Case("range-moves-%s" % when, ops, True, "directed"))
    # an HTTP instance this node learned from another node (replicated, from_cluster > 0) whose client now talks to this
    # node - a heartbeat or a re-registration arrives here, as after the owner's failure or a range move - is this node's
    # to expire from then on: silent afterwards, it must turn unhealthy and be removed; a beating neighbour as control
    for tag in ("none", "-"):
        for fc in (2, 3):
            for first in (3000, 17000, 25000):
                t0 = 1000
                ops = ["upd svc=ns|g|s1 ip=10.0.0.1 port=80 eph=1 grpc=0 fc=%d cid=- healthy=1 en=1 w=1000 tag=- sync=1 now=%d" % (fc, t0),
                       "upd svc=ns|g|s1 ip=10.0.0.2 port=80 eph=1 grpc=0 fc=0 cid=- healthy=1 en=1 w=1000 tag=- sync=0 now=%d" % t0,
                       "upd svc=ns|g|s1 ip=10.0.0.1 port=80 eph=1 grpc=0 fc=0 cid=- healthy=1 en=1 w=1000 tag=%s sync=0 now=%d" % (tag, t0 + first)]
                for t in (first + 6000, first + 12000, first + 19000, first + 26000, first + 34500, first + 37000):
                    ops.append("upd svc=ns|g|s1 ip=10.0.0.2 port=80 eph=1 grpc=0 fc=0 cid=- healthy=1 en=1 w=1000 tag=none sync=0 now=%d" % (t0 + t - 500))
                    ops += ["timecheck now=%d" % (t0 + t), "all svc=ns|g|s1"]
                ops.append("audit")
                cases.append(Case("adopted-%s-fc%d-%d" % ("beat" if tag == "none" else "reg", fc, first), ops, True, "directed"))
    for i in range(200 if big else 30):
        cases.append(Case("Mreg-%d" % i, g.gen_mixed(rng, rng.randrange(4, 30)), False, "random"))
    return cases


class C13(Prop):
    id = "C13"
    lean_module = "RNacos.Props.C13"
    level = "proof"
    design_ref = "DESIGN.md §7 C13"
    models = [ModelRun("naming", gen, lambda c: len(c.ops) >= 4, impl_env=g.IMPL_ENV, spec_needs_impl=True,
                       regions={"takeover.http_from_cluster": g.region_takeover},
                       search=lambda rng, b: gen(rng, "quick") * 2, rule=(
        "timelines of 1-3 instances (HTTP ephemeral, persistent, gRPC) with heartbeats and silences whose gaps are drawn "
        "from {2 s, 5 s, 15 s, 17.99 s, 18 s, 18.01 s, 33 s, 33.01 s, 40 s}, single and double time checks, on the real "
        "NamingActor with a frozen wall clock; exact boundary cases of both time-outs; oracle: an instance heard of within "
        "18 s is never unhealthy/removed, a silent HTTP instance is gone after two checks past 33 s, persistent and gRPC "
        "instances are never touched by the heartbeat clock - also after the TCP probe of their host has reported a failure "
        "(PerpetualHostSniffing, the health check of persistent instances: directed cases over the age of the instance "
        "and a second probe result; probes inside the random timelines). Generated cases avoid the region of known "
        "finding F16c."))]
    trusted_base = [
        "hand model RNacos/Model/Naming.lean (time-out sets as lists with a stable sort by time)",
        "frozen wall clock through the LD_PRELOAD shim; time checks are explicit PeekListenerTimeout messages - the 2 s "
        "timer that drives them in production and the propagation to other nodes are runtime (partial)",
    ]
    assumptions = ["time-outs are the defaults of NamingSysConfig::new (18 s / 33 s)"]
