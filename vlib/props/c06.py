"""C06 — cluster: acknowledged config writes are never lost; all nodes converge."""
from ..core import Case
from ..runner import Prop, ModelRun
from . import cluster_gen


def gen_ack(rng, tier):
    cases = []
    big = tier == "thorough"
    for i in range(60 if big else 10):
        ops = []
        n = rng.randrange(4, 16)
        close_at = rng.choice([None, rng.randrange(1, n)])
        for j in range(n):
            if close_at == j:
                ops.append("closewrite")
            r = rng.random()
            k = "k%d" % rng.randrange(4)
            routed = rng.random() < 0.35       # the write arrives at the leader as a request a follower forwarded
            if r < 0.5:
                ops.append("%s %s v%d" % ("rpub" if routed else "pub", k, rng.randrange(1000)))
            elif r < 0.65:
                ops.append("%s %s" % ("rdel" if routed else "del", k))
            else:
                ops.append("get %s" % k)
        ops += ["get k0", "get k1", "get k2", "get k3"]
        cases.append(Case("ack-%d" % i, ops, True, "random"))
    return cases


class C06(Prop):
    id = "C06"
    lean_module = "RNacos.Props.C06"
    level = "proof"
    design_ref = "DESIGN.md §7 C06"
    models = [ModelRun("ack", gen_ack, lambda c: sum(1 for o in c.ops if o.startswith(("pub", "del", "rpub", "rdel"))) >= 2,
                       spec_needs_impl=True, jobs=4, shrinkable=True,
                       search=lambda rng, b: gen_ack(rng, "thorough")[:b], rule=(
        "a complete standalone node in-process (real config_factory wiring, initialised single-node Raft); publishes and "
        "removals through the real ConfigRoute (what every HTTP and gRPC publish handler calls), reads through the config "
        "actor; at a random point the state machine is put into close-write state (FileStore::set_close_write, as during an "
        "import) so that nothing can be committed any more. Model = specification of a standalone node (a map that changes "
        "exactly when a write is committed); oracle: what was acknowledged is served, what is served was submitted. "
        "non-trivial = >=2 writes"))]
    models.append(ModelRun("cluster", cluster_gen.gen_writes, lambda c: any(o.startswith("getall") for o in c.ops),
                           spec_needs_impl=True, jobs=2, shrinkable=False, rule=(
        "real rnacos processes on loopback (3 nodes). Both tiers: one directed scenario - the same key written through a "
        "follower and then through another node, through every node, removed and re-published through different nodes. "
        "Thorough tier: publishes/removals addressed to arbitrary nodes "
        "(routed to the leader), kill -9 / SIGSTOP / restart of one node at a time, leader changes; after 10 s of quiet "
        "every live node must serve the same content for every key and it must be the last acknowledged write or a later "
        "submitted one")))
    trusted_base = [
        "async-raft (commit, election, replication, snapshot transfer) is trusted, not verified; the storage contract it "
        "needs is C02-C05/C07",
        "the translator's recogniser of the 13 call sites of the write path (fails on unknown shapes)",
        "hand model RNacos/Model/WritePath.lean of the answer given to the client",
    ]
    assumptions = ["the 3-process cluster behaviour (kills, restarts, leader changes) is explored (one directed scenario in "
                   "the quick tier, random fault scenarios in the thorough tier) "
                   "(model `cluster`), not proved: election timing and message loss are runtime behaviour"]
