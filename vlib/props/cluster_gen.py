"""Scenario generators for the model `cluster` (real rnacos processes on loopback; 15-40 s per scenario)."""
from ..core import Case


def gen_install(rng, tier):
    """C08: a node that joins after the leader compacted is caught up by snapshot install"""
    cases = []
    big = tier == "thorough"
    for i in range(4 if big else 1):
        snap = rng.choice([10, 10, 25])
        n_writes = rng.choice([30, 45, 70]) if big else 30
        ops = ["up 2 of=3 snap=%d" % snap]
        keys = ["k%d" % j for j in range(7)]
        for j in range(n_writes):
            k = rng.choice(keys)
            if rng.random() < 0.12:
                ops.append("rm %d %s" % (rng.choice([1, 2]), k))
            else:
                ops.append("pub %d %s v%d" % (rng.choice([1, 2]), k, j))
        ops += ["settle 1500", "start 3", "caughtup 3 90000", "settle 3000"]
        # without operator intervention (known finding F10 until the restart below)
        late = ["getall %s" % k for k in keys[:3]] + ["getall verif-up"]
        restart = ["kill 3", "start 3", "caughtup 3 90000", "settle 3000"] + ["getall %s" % k for k in keys] + ["getall verif-up"]
        more = ["pub 2 k0 after-install", "settle 2500", "getall k0", "kill 3", "start 3", "caughtup 3 90000", "settle 3000", "getall k0", "getall k1"]
        cases.append(Case("install-%d" % i, ops + restart + more, True, "random"))
        if i == 0:
            cases.append(Case("install-late-%d" % i, ops + late, True, "boundary"))
    return cases


def region_before_restart(case):
    """known finding F10: the late joiner is compared with the leader before it has been restarted"""
    seen_start = False
    restarted = False
    for o in case.ops:
        if o == "start 3" and not seen_start:
            seen_start = True
        elif o == "kill 3" and seen_start:
            restarted = True
        elif o.startswith("getall") and seen_start and not restarted:
            return True
    return False


def region_raft_conflict(case):
    """known finding F33: an operation on an address follows, without a pause, another one on the same address of which
    one goes through Raft (a persistent registration / deregistration)"""
    touched = {}
    for o in case.ops:
        w = o.split()
        if w[0] == "settle":
            touched = {}
        elif w[0] in ("reg", "dereg") and len(w) >= 6:
            k, eph = (w[2], w[3]), w[5]
            if k in touched and (touched[k] == "0" or eph == "0"):
                return True
            touched[k] = eph
    return False


def gen_writes(rng, tier):
    """C06: writes addressed to every node, kills / stops / restarts of a minority, leader changes"""
    cases = []
    # directed (both tiers): the same key written through a follower and then through another node; a write through
    # every node; removal and re-publication through different nodes
    d = ["up 3", "pub 2 k0 a0", "pub 3 k0 a1", "pub 1 k1 b0", "pub 2 k1 b1", "pub 3 k2 c0", "pub 3 k2 c1", "pub 2 k3 d0", "rm 3 k3",
         "pub 1 k3 d1", "pub 2 k4 e0", "pub 1 k4 e1", "settle 4000", "getall k0", "getall k1", "getall k2", "getall k3", "getall k4"]
    cases.append(Case("writes-every-node", d, True, "boundary"))
    # directed (both tiers): a key is published through one node and removed through ANOTHER one right away - the node
    # that takes the removal has, as a follower, not applied the publish yet (it learns the commit with the leader's next
    # message); the acknowledged removal must still take effect everywhere.  All six ordered pairs of nodes.
    pr = ["up 3"]
    pairs = [(a, b) for a in (1, 2, 3) for b in (1, 2, 3) if a != b]
    for n, (a, b) in enumerate(pairs):
        pr += ["pub %d r%d x%d" % (a, n, n), "rm %d r%d" % (b, n)]
    pr += ["settle 4000"] + ["getall r%d" % n for n in range(len(pairs))]
    cases.append(Case("writes-removed-elsewhere", pr, True, "boundary"))
    # directed (both tiers): a follower is frozen (SIGSTOP) while a burst of writes is committed by the other two, then
    # continued: it receives the whole burst as one replicated batch and must end up serving every one of them
    bu = ["up 3", "pub 1 b0 first", "settle 1500", "stop 3"] + ["pub %d b%d v%d" % (1 + j % 2, j, j) for j in range(24)] + \
         ["rm 1 b5", "cont 3", "settle 6000"] + ["getall b%d" % j for j in (0, 5, 15, 16, 17, 23)]
    cases.append(Case("writes-burst-while-frozen", bu, True, "boundary"))
    # directed (both tiers): the leader is killed and followers are written to before a new leader exists (those writes
    # are refused or time out); after the election the survivors must agree, also on the keys of the refused writes
    d2 = ["up 3", "pub 1 k0 v0", "pub 2 k1 w0", "settle 1500", "kill 1", "pub 2 k0 v1", "pub 3 k1 w1", "pub 2 k2 x1",
          "settle 9000", "getall k0", "getall k1", "getall k2", "pub 2 k3 y0", "pub 3 k3 y1", "settle 3000", "getall k3",
          "getall k0"]
    cases.append(Case("writes-leader-killed", d2, True, "boundary"))
    if tier != "thorough":
        return cases
    for i in range(5):
        ops = ["up 3"]
        keys = ["k%d" % j for j in range(4)]
        down = None
        for step in range(rng.randrange(5, 9)):
            for _ in range(rng.randrange(2, 6)):
                node = rng.choice([1, 2, 3])
                k = rng.choice(keys)
                if rng.random() < 0.15:
                    ops.append("rm %d %s" % (node, k))
                else:
                    ops.append("pub %d %s v%d_%d" % (node, k, step, rng.randrange(1000)))
            r = rng.random()
            if down is None and r < 0.5:
                down = rng.choice([1, 2, 3])
                ops.append(rng.choice(["kill %d", "kill %d", "stop %d"]) % down)
                ops.append("settle %d" % rng.choice([500, 7000]))
            elif down is not None and r < 0.8:
                ops.append("cont %d" % down)
                ops.append("start %d" % down)
                ops.append("settle 6000")
                down = None
        if down is not None:
            ops += ["cont %d" % down, "start %d" % down]
        ops.append("settle 10000")
        ops += ["getall %s" % k for k in keys]
        cases.append(Case("writes-%d" % i, ops, True, "random"))
    return cases


def gen_registry(rng, tier):
    """C15: registrations addressed to every node; after quiescence every node returns the same instances"""
    cases = []
    for i in range(5 if tier == "thorough" else 1):
        ops = ["up 3"]
        svcs = ["svc1", "svc2"]
        touched = {}       # (svc, ip) -> persistence class of the last operation on the address, since the last pause
        for _ in range(rng.randrange(6, 14)):
            node = rng.choice([1, 2, 3])
            svc = rng.choice(svcs)
            ip = "10.0.0.%d" % rng.randrange(1, 5)
            eph = rng.choice([0, 0, 1])
            # an operation on an address follows another one on the same address that went (or goes) through Raft only
            # after that one has been applied everywhere: persistent registrations are acknowledged by the leader's
            # commit, a follower applies them a moment later, and a conflicting operation handled by that follower in
            # between acts on the older state (two replication paths, no common order - an observation recorded in
            # DESIGN.md, not what C15 is about)
            if (svc, ip) in touched and (touched[(svc, ip)] == 0 or eph == 0):
                ops.append("settle 1500")
                touched = {}
            touched[(svc, ip)] = eph
            if rng.random() < 0.75:
                ops.append("reg %d %s %s 80 %d" % (node, svc, ip, eph))
            else:
                ops.append("dereg %d %s %s 80 %d" % (node, svc, ip, eph))
        ops.append("settle 4000")
        ops += ["listall %s" % s for s in svcs]
        if tier == "thorough" and i % 2 == 1:
            # a node is killed and comes back: it receives the others' data - persistent instances through Raft, ephemeral
            # HTTP instances with the owners' next heartbeat batch (their clients keep beating, as real clients do)
            victim = rng.choice([2, 3])
            live = sorted({(o.split()[2], o.split()[3]) for o in ops if o.startswith("reg ") and o.endswith(" 1")})
            beats = ["beat 1 %s %s 80" % (sv, ip) for sv, ip in live]
            ops += ["kill %d" % victim, "settle 3000", "reg 1 svc1 10.0.0.9 80 0"] + beats + ["settle 3000", "start %d" % victim, "settle 5000"]
            ops += beats + ["settle 5000"] + beats + ["settle 5000"] + beats + ["settle 5000"] + beats + ["settle 3000"]
            ops += ["listall %s" % s for s in svcs]
        cases.append(Case("registry-%d" % i, ops, True, "random"))
    # directed (both tiers): a rolling replacement - through each node in turn an instance is deregistered and a different
    # one of the same service registered back to back, so that one 500 ms sync batch carries a removal and an update
    d = ["up 3"] + ["reg %d svc1 10.0.1.%d 80 1" % (n, n) for n in (1, 2, 3)] + ["settle 1500"]
    for n in (1, 2, 3):
        d += ["dereg %d svc1 10.0.1.%d 80 1" % (n, n), "reg %d svc1 10.0.2.%d 80 1" % (n, n)]
    d += ["settle 4000", "listall svc1"]
    cases.append(Case("registry-rolling-replacement", d, True, "boundary"))
    # directed (both tiers): heart-beating HTTP clients; one deregisters right after a heartbeat (the owner flushes queued
    # heartbeats to the other nodes only every 15 s), the other keeps beating; compared after the next heartbeat flush
    b = ["up 3", "reg 1 svc2 10.0.0.1 80 1", "reg 2 svc2 10.0.0.2 80 1", "settle 1500",
         "beat 2 svc2 10.0.0.2 80", "beat 1 svc2 10.0.0.1 80", "settle 300", "dereg 1 svc2 10.0.0.1 80 1"]
    for _ in range(3):
        b += ["settle 5000", "beat 2 svc2 10.0.0.2 80"]
    b += ["settle 3000", "listall svc2"]
    cases.append(Case("registry-heartbeat-then-deregister", b, True, "boundary"))
    # directed (both tiers): gRPC clients (the nacos_rust_client crate) hold ephemeral instances through connections to
    # different nodes; the node one of them is connected to is killed: its instances must disappear from the others;
    # the node comes back, the client reconnects, everybody agrees again
    g = ["up 3", "greg c1 3 svc3 10.0.0.5 80", "greg c2 1 svc3 10.0.0.6 80", "settle 3000", "listall svc3",
         # node 2 is restarted: it learns the instances of the gRPC clients from the other nodes' snapshots, not from a batch
         "kill 2", "start 2", "settle 8000", "listall svc3",
         "kill 3", "settle 30000", "listall svc3", "start 3", "settle 12000", "listall svc3"]
    cases.append(Case("registry-grpc-node-death", g, True, "boundary"))
    # directed (both tiers): the node a gRPC client is connected to is restarted quickly (well inside the 15 s after which
    # the others would declare it dead) and the client withdraws its instance meanwhile: the restarted node holds no
    # gRPC instance at all - the others must still forget the instance they remember for that node's old connection
    q = ["up 3", "greg c5 3 svc5 10.0.0.7 80", "settle 3000", "listall svc5", "kill 3", "gdereg c5 svc5 10.0.0.7 80", "start 3",
         "settle 25000", "listall svc5"]
    cases.append(Case("registry-grpc-quick-restart", q, True, "boundary"))
    # directed (both tiers): an address changes its persistence class by re-registration (persistent -> ephemeral through
    # another node, and back): the acknowledged registration must be listed everywhere afterwards
    # (the flips follow only after every node lists the registrations so far - `listall` collects answers until the nodes
    # agree: a persistent registration reaches the other nodes with the commit, and a flip handled by a node that has not
    # applied it yet is the open finding F33, whatever the pause was)
    fl = ["up 3", "reg 1 svc4 10.0.0.8 80 0", "reg 2 svc4 10.0.0.9 80 1", "settle 2500", "listall svc4", "reg 2 svc4 10.0.0.8 80 1",
          "reg 3 svc4 10.0.0.9 80 0", "settle 3500", "listall svc4", "reg 3 svc4 10.0.0.8 80 0", "settle 3500", "listall svc4"]
    cases.append(Case("registry-class-flip", fl, True, "boundary"))
    return cases


def gen_tokens(rng, tier):
    """C16: the real binary with OpenAPI auth on and short-lived access tokens: a token whose lifetime has passed stays
    refused - also across restarts, which replay the log entry that stored it"""
    cases = []
    a = ["upauth 3", "login 1 a", "tpub 1 a k0 v0", "tget 1 a k0", "tget 1 none k0", "tget 1 garbage k0", "tpub 1 none k1 v1",
         "settle 4500", "tget 1 a k0", "kill 1", "start 1", "settle 3000", "tget 1 a k0", "tpub 1 a k0 v2", "login 1 b", "tget 1 b k0",
         "settle 4500", "tget 1 b k0", "kill 1", "start 1", "settle 3000", "tget 1 b k0", "tget 1 a k0", "tget 1 none k0"]
    cases.append(Case("tokens-expire-across-restarts", a, True, "boundary"))
    if tier == "thorough":
        for i in range(3):
            ttl = rng.choice([2, 3, 5])
            ops = ["upauth %d" % ttl]
            names = []
            for k in range(rng.randrange(2, 5)):
                n = "t%d" % k
                names.append(n)
                ops += ["login 1 %s" % n, "tpub 1 %s k%d v%d" % (n, k, k)]
                ops.append("settle %d" % rng.choice([500, ttl * 1000 + 1500]))
                if rng.random() < 0.6:
                    ops += ["kill 1", "start 1", "settle 3000"]
                for m in names:
                    ops.append("tget 1 %s k0" % m)
                ops.append("tget 1 %s k0" % rng.choice(["none", "garbage"]))
            cases.append(Case("tokens-%d" % i, ops, True, "random"))
    return cases
