"""C09 — config store: last write wins, md5 matches content, listings match store."""
from ..core import Case
from ..runner import Prop, ModelRun

TENANTS = ["t1", "t2", "-", "public"]
GROUPS = ["g1", "g2", "DEFAULT_GROUP"]
DATAIDS = ["d1", "d2", "d3", "app.yaml", "app.properties", "a"]
CONTENTS = ["6869", "686a", "61", "7b7d", "r61*100", "r7a*10240", "-"]
TYPES = ["-", "-", "yaml", "YAML", "yml", "json", "properties", "weird", "toml"]


def key(rng):
    return "%s|%s|%s" % (rng.choice(DATAIDS), rng.choice(GROUPS), rng.choice(TENANTS))


def gen_store_ops(rng, n, state, with_tmp=False, with_full=True):
    """ops over overlapping keys; state = dict(hid=..)"""
    ops = []
    last = state.setdefault("last", {})      # key -> content of the last publish (None after a removal)
    for _ in range(n):
        r = rng.random()
        k = key(rng)
        if r < 0.12 and any(v is not None for v in last.values()):
            # the same content published again with another type / description (what editing only the description
            # does), and read back
            k = rng.choice(sorted(kk for kk, v in last.items() if v is not None))
            state["hid"] += 1
            state["t"] += rng.randrange(1, 5)
            mark = "-" if state["hid"] % 100 != 1 else str(state["hid"] + 99)
            ops.append("add %s c=%s type=%s desc=%s hid=%d mark=%s time=%d user=%s" % (
                k, last[k], rng.choice(TYPES), rng.choice(["-", "edited", "some%20text", "y"]),
                state["hid"], mark, state["t"], rng.choice(["-", "admin"])))
            ops.append("get %s" % k)
            continue
        if r < 0.45:
            state["hid"] += 1
            state["t"] += rng.randrange(1, 5)
            mark = "-" if state["hid"] % 100 != 1 else str(state["hid"] + 99)
            c = rng.choice(CONTENTS)
            ops.append("add %s c=%s type=%s desc=%s hid=%d mark=%s time=%d user=%s" % (
                k, c, rng.choice(TYPES), rng.choice(["-", "-", "some%20text", "x"]),
                state["hid"], mark, state["t"], rng.choice(["-", "admin"])))
            last[k] = c
        elif r < 0.55:
            ops.append("remove %s" % k)
            last[k] = None
        elif r < 0.62 and with_full:
            nh = rng.choice([0, 1, 3])
            hist = ";".join("%d:%s:%d" % (1000 + i, rng.choice(CONTENTS[:4]), 50 + i) for i in range(nh)) or "-"
            c = rng.choice(CONTENTS)
            last[k] = c
            ops.append("full %s c=%s hist=%s type=%s desc=%s lastid=%s" % (
                k, c, hist, rng.choice(TYPES), rng.choice(["-", "imp"]), rng.choice(["-", "5000"])))
        elif r < 0.66 and with_tmp:
            ops.append("tmp %s c=%s" % (k, rng.choice(CONTENTS)))
            last[k] = None
        elif r < 0.8:
            ops.append("get %s" % k)
        elif r < 0.93:
            t = rng.choice(TENANTS)
            g = rng.choice(["-", "-", "=g1", "=DEFAULT_GROUP", "~g", "~EFAULT", "=", "~"])
            d = rng.choice(["-", "-", "=d1", "~app", "~.", "~zz", "="])
            ops.append("page t=%s g=%s d=%s off=%d lim=%d" % (t, g, d, rng.choice([0, 0, 1, 2, 5]), rng.choice([1, 2, 3, 7, 4294967295])))
        else:
            ops.append("hist %s off=%s lim=%s" % (k, rng.choice(["0", "0", "1", "-", "150"]), rng.choice(["10", "1", "-", "200"])))
    return ops


def gen_config(rng, tier):
    cases = []
    big = tier == "thorough"
    for i in range(3000 if big else 250):
        st = {"hid": 0, "t": 0}
        ops = gen_store_ops(rng, rng.randrange(4, 40), st)
        ops.append("dump")
        cases.append(Case("store-%d" % i, ops, True, "random"))
    # one key hammered past the history bound of 100
    for i in range(6 if big else 2):
        st = {"hid": 0, "t": 0}
        ops = []
        for j in range(230):
            st["hid"] += 1
            ops.append("add d1|g1|t1 c=%s type=- desc=- hid=%d mark=- time=%d user=-" % (
                rng.choice(["61", "62", "63"]) if j % 7 else "61", st["hid"], j))
            if j % 40 == 0:
                ops.append("hist d1|g1|t1 off=0 lim=200")
        ops += ["hist d1|g1|t1 off=0 lim=200", "hist d1|g1|t1 off=95 lim=10", "get d1|g1|t1", "dump"]
        cases.append(Case("histbound-%d" % i, ops, True, "boundary"))
    # paging: complete enumeration of pages of every size over a populated tenant
    for i in range(40 if big else 6):
        st = {"hid": 0, "t": 0}
        ops = []
        for d in DATAIDS:
            for g in GROUPS:
                if rng.random() < 0.7:
                    st["hid"] += 1
                    ops.append("add %s|%s|t1 c=61 type=- desc=- hid=%d mark=- time=1 user=-" % (d, g, st["hid"]))
        for lim in (1, 2, 3, 5, 7):
            for off in range(0, 20, lim):
                ops.append("page t=t1 g=- d=- off=%d lim=%d" % (off, lim))
        cases.append(Case("paging-%d" % i, ops, True, "boundary"))
    # routed publishes: the node that forwards a publish to the leader stores the content as a temporary value
    # (SetTmpValue), then the committed publish is applied on it - with the same content, or with another one when a
    # later publish overtook it; the key must be readable, listed and recorded in the history like any other
    n = 0
    for existing in (False, True):
        for same in (True, False):
            for k in ("d1|g1|t1", "app.yaml|DEFAULT_GROUP|-", "a|g2|public"):
                t = k.split("|")[2]
                ops, hid = [], 0
                if existing:
                    hid += 1
                    ops.append("add %s c=61 type=yaml desc=first hid=%d mark=- time=%d user=-" % (k, hid, hid))
                ops.append("add d3|g1|%s c=7b7d type=- desc=- hid=%d mark=- time=%d user=-" % (t, hid + 1, hid + 1))
                hid += 2
                ops.append("tmp %s c=686a" % k)
                if rng.random() < 0.5:
                    ops.append("get %s" % k)
                ops.append("add %s c=%s type=- desc=- hid=%d mark=- time=%d user=admin" % (k, "686a" if same else "6869", hid, hid))
                ops += ["get %s" % k, "page t=%s g=- d=- off=0 lim=10" % t, "hist %s off=0 lim=10" % k, "dump"]
                cases.append(Case("routed-%d" % n, ops, True, "boundary"))
                n += 1
    # temporary values and separator characters inside key fields: correspondence only
    for i in range(600 if big else 60):
        st = {"hid": 0, "t": 0}
        ops = gen_store_ops(rng, rng.randrange(4, 30), st, with_tmp=True)
        if rng.random() < 0.3:
            ops.insert(0, "add a%02b|g1|t1 c=61 type=- desc=- hid=900 mark=- time=1 user=-")
            ops.append("get a|b|g1")
        ops.append("dump")
        cases.append(Case("Mstore-%d" % i, ops, False, "malformed"))
    return cases


class C09(Prop):
    id = "C09"
    lean_module = "RNacos.Props.C09"
    level = "proof"
    design_ref = "DESIGN.md §7 C09"
    models = [ModelRun("config", gen_config, lambda c: len(c.ops) >= 4, spec_needs_impl=True,
                       search=lambda rng, b: gen_config(rng, "thorough")[:b], rule=(
        "random histories (4-40 ops) of publish / remove / full import / get / page / history over 6 dataIds x 3 groups x "
        "4 tenants (incl. empty and 'public'), contents with repeats (unchanged-md5 branch) and sizes 0..10 KB, type "
        "strings incl. unknown and upper case, exact/fuzzy/empty filters, page sizes 1..7 and 0xffffffff; one key "
        "published 230 times (history bound); complete page enumerations; routed publishes (temporary value, then the "
        "committed publish with the same or another content, on new and existing keys: read, listing, history); M* cases "
        "add temporary values and 0x02 inside "
        "key fields (correspondence only). Real ConfigActor through its actor messages + hook dump of index/cache; "
        "oracle = naive map from key to last applied publish. non-trivial = >=4 ops"))]
    trusted_base = [
        "hand model RNacos/Model/Config.lean; md5 is an injective tag in the model (the harness checks the reported md5 "
        "against an md5 it computes itself)",
        "BTreeMap order = byte-wise lexicographic order of the strings (ASCII keys in the correspondence)",
    ]
    assumptions = ["the raft layer delivers ConfigRaftCmd in log order (ops are applied one at a time)",
                   "imported histories hold at most 100 entries (they are exports of this store)"]
