"""C05 — Raft vote, term, membership and node addresses are durable, never regress."""
from ..core import Case
from ..runner import Prop, ModelRun
from . import log_gen

ADDRS = ["127.0.0.1:9848", "10.0.0.2:9848", "h", "node-3.cluster.local:19848", "[::1]:9848"]


def logs(rng, n):
    out = []
    start = rng.choice([0, 1, 100, 5000])
    for i in range(n):
        cnt = rng.choice([0, 1, 50, 10000, 2 ** 33])
        out.append("%d:%d:%d:%d:%d:%d:%d" % (i + rng.choice([0, 1, 1000]), rng.choice([0, 1, 7]), start, cnt,
                                             rng.choice([0, 0, 3]), rng.random() < 0.6, rng.random() < 0.2))
        start += cnt
    return ";".join(out) or "-"


def snaps(rng, n):
    return ";".join("%d:%d" % (i + 1, rng.choice([0, 10, 300, 2 ** 40])) for i in range(n)) or "-"


def ids(rng):
    return ",".join(str(x) for x in rng.sample([1, 2, 3, 4, 5, 300, 2 ** 40], rng.randrange(0, 5))) or "-"


def addrs(rng):
    n = rng.randrange(0, 4)
    if n == 0:
        return rng.choice(["-", "-", ""]) or "-"
    return ";".join("%d@%s" % (rng.choice([1, 2, 3, 300]), rng.choice(ADDRS)) for _ in range(n))


def gen_ops(rng, n, term):
    ops = []
    for _ in range(n):
        r = rng.random()
        if r < 0.22:
            term[0] += rng.choice([0, 1, 1, 2, 200])
            ops.append("hs %d %d" % (term[0], rng.choice([0, 1, 2, 3, 300])))
        elif r < 0.34:
            m = ids(rng)
            ops.append("member m=%s after=%s addrs=%s" % (m, rng.choice(["-", "-", ids(rng)]), addrs(rng)))
        elif r < 0.44:
            ops.append("addaddr %d %s" % (rng.choice([1, 2, 3, 300]), rng.choice(ADDRS)))
        elif r < 0.58:
            # rollover / compaction: the catalogue grows and shrinks, so the record is rewritten shorter or longer
            ops.append("logs %s" % logs(rng, rng.choice([0, 1, 1, 2, 3, 8, 30])))
        elif r < 0.66:
            ops.append("snaps %s" % snaps(rng, rng.choice([0, 1, 2, 5])))
        elif r < 0.76:
            ops.append("applied %d" % rng.choice([0, 1, 255, 256, 65536, 2 ** 32, 2 ** 63 + 5, 2 ** 64 - 1]))
        elif r < 0.9:
            ops += ["reopen"] * rng.choice([1, 1, 2]) + ["info"]
        else:
            ops.append("info")
    return ops


def gen_index(rng, tier):
    cases = []
    big = tier == "thorough"
    for i in range(2500 if big else 220):
        term = [0]
        ops = ["open"] + gen_ops(rng, rng.randrange(3, 40), term) + ["info", "reopen", "info", "size"]
        cases.append(Case("hist-%d" % i, ops, True, "random"))
    # the first saves into a new file, one writer at a time: the sizes around the new-file threshold
    firsts = ["hs 1 1", "hs 1 0", "hs 0 1", "hs 300 300", "applied 1", "applied 300", "addaddr 1 h", "addaddr 0 h",
              "member m=1 after=- addrs=-", "member m=1,2,3 after=- addrs=1@h", "logs 1:0:0:0:0:0:0", "logs 0:0:0:0:0:0:0",
              "snaps 1:1", "logs -", "member m=- after=- addrs=-", "hs 0 0"]
    for a in firsts:
        for b in [None] + (firsts if big else firsts[:4]):
            ops = ["open", a] + ([b] if b else []) + ["info", "reopen", "info", "reopen", "info", "size"]
            cases.append(Case("first-%s-%s" % (a.replace(" ", "_"), (b or "none").replace(" ", "_")), ops, True, "boundary"))
    # a long record followed by a short one (stale tail bytes stay in the file) and back
    for i in range(60 if big else 8):
        term = [5]
        ops = ["open", "hs 5 2", "logs %s" % logs(rng, rng.choice([20, 40, 120])), "member m=1,2,3 after=1,2 addrs=1@%s;2@%s" % (ADDRS[3], ADDRS[3]),
               "reopen", "info", "logs %s" % logs(rng, 1), "reopen", "info", "member m=1 after=- addrs=-", "logs -", "reopen", "info",
               "hs 6 1", "reopen", "info", "size"]
        cases.append(Case("shrink-%d" % i, ops, True, "boundary"))
    return cases


class C05(Prop):
    id = "C05"
    lean_module = "RNacos.Props.C05"
    level = "proof"
    design_ref = "DESIGN.md §7 C05"
    models = [ModelRun("indexfile", gen_index, lambda c: sum(1 for o in c.ops if o.split()[0] in ("hs", "member", "addaddr", "logs", "snaps", "applied")) >= 1
                       and "reopen" in c.ops, spec_needs_impl=True, jobs=8,
                       search=lambda rng, b: gen_index(rng, "thorough")[:b], rule=(
        "random histories (3-40 ops) interleaving save-hard-state, membership saves (with/without member_after and "
        "address map), add-node-address, log-catalogue saves of 0..30 ranges (rollover/compaction: record grows and "
        "shrinks, lengths across the 1/2-byte varint prefix), snapshot-catalogue saves, last-applied saves (0..2^64-1) "
        "and single/double reopen, against the real RaftIndexManager actor on a real file in a temp dir; every pair of "
        "first saves into a new file (sizes around the new-file threshold); long-then-short records. Oracle = record "
        "of the last saved value per field; every `info` after a reopen must return it. non-trivial = at least one "
        "save and one reopen"))]
    models.append(ModelRun("logstore", log_gen.gen_store_hardstate, lambda c: any(o.startswith("hs") for o in c.ops) and "init" in c.ops,
                           spec_needs_impl=True, rule=(
        "the same facts at the level raft sees them: term and vote saved through the real FileStore::save_hard_state and "
        "read back through get_initial_state - with nothing in the log yet (a fresh node that is asked for its vote), with "
        "entries, after the log was cut back to nothing, across reopens. Oracle = the hard state saved last. "
        "non-trivial = a save and a read")))
    trusted_base = [
        "hand model RNacos/Model/IndexFile.lean of raftindex.rs (file bytes, init, write_index, write_last_applied_log) "
        "and of the quick-protobuf encoding of RaftIndex; the protobuf round trip is a hypothesis of the theorems "
        "(RoundTrips r, decidable, evaluated for the example records) and is exercised by the correspondence",
        "the file system keeps what write_all wrote (no crash inside one write: that is C04's subject)",
    ]
    assumptions = ["reads and writes of the index file are whole (actix `ctx.wait` serialises them within the actor)",
                   "RaftIndexManager acknowledges a save before the write has been issued (`ctx.wait` future); the "
                   "window is closed by the actor's mailbox for every later message of the same actor, not for a crash"]
