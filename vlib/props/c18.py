"""C18 — namespace-scoped users never see or change data outside their namespaces."""
from ..core import Case
from ..runner import Prop, ModelRun

ALL_ENDPOINTS = [
    "v1.config.get", "v1.config.add", "v1.config.del", "v1.config.list", "v1.config.history", "v1.config.download",
    "v1.service.get", "v1.service.update", "v1.service.remove", "v1.services.list", "v1.instance.get", "v1.instance.update",
    "v1.instance.del", "v1.instances.list", "v1.namespaces.list", "v1.namespaces.add", "v1.namespaces.update",
    "v1.namespaces.remove",
    "v2.config.list", "v2.config.info", "v2.config.add", "v2.config.update", "v2.config.remove", "v2.config.history",
    "v2.service.list", "v2.service.add", "v2.service.update", "v2.service.remove", "v2.instance.list", "v2.instance.info",
    "v2.instance.add", "v2.instance.update", "v2.instance.remove", "v2.namespaces.list", "v2.namespaces.add",
    "v2.namespaces.update", "v2.namespaces.remove",
]
# known finding F18: these v1 routes are the OpenAPI handlers themselves (no privilege check); the sweep keeps away
# from them so that any OTHER endpoint that stops checking is reported
UNCHECKED = ["v1.config.get", "v1.config.add", "v1.config.del", "v1.config.history", "v1.service.get", "v1.service.update",
             "v1.service.remove", "v1.instance.get", "v1.instance.update", "v1.instance.del"]
SPELLINGS = ["nsa", "nsb", "zzz", "public", "empty", "omit"]

# whitelist: all / empty / explicit x blacklist: all / empty / explicit, enabled or not
GROUPS = []
for en in (1, 0):
    for wall, w in ((1, "-"), (0, "-"), (0, "nsa"), (0, "@,nsa"), (0, "nsa,nsb")):
        for ball, b in ((0, "-"), (1, "-"), (0, "nsb"), (0, "nsa"), (0, "@")):
            GROUPS.append((en, wall, w, ball, b))


def sess_line(name, g):
    return "sess %s en=%d wall=%d w=%s ball=%d b=%s" % ((name,) + g)


def gen_priv(rng, tier):
    cases = []
    big = tier == "thorough"
    ENDPOINTS = [e for e in ALL_ENDPOINTS if e not in UNCHECKED]
    groups = GROUPS if big else [g for g in GROUPS if g[0] == 1][:25:2] + [GROUPS[-3], GROUPS[30]]
    for gi, g in enumerate(groups):
        eps = ENDPOINTS if big else rng.sample(ENDPOINTS, 14)
        ops = ["seed", sess_line("u", g), "sess all en=0 wall=1 w=- ball=0 b=-"]
        for ep in eps:
            for sp in (SPELLINGS if big else rng.sample(SPELLINGS, 3)):
                ops.append("call %s ns=%s session=u" % (ep, sp))
        cases.append(Case("group-%d-en%d-w%d_%s-b%d_%s" % ((gi,) + g), ops, True, "exhaustive" if big else "random"))
    # every endpoint x spelling for the most telling group (whitelist = {nsa}) and its mirror (blacklist = {nsb})
    for name, g in (("white-nsa", (1, 0, "nsa", 0, "-")), ("black-nsb", (1, 1, "-", 0, "nsb")), ("white-default", (1, 0, "@", 0, "-"))):
        ops = ["seed", sess_line("u", g)]
        for ep in ENDPOINTS:
            for sp in SPELLINGS:
                ops.append("call %s ns=%s session=u" % (ep, sp))
        cases.append(Case("sweep-" + name, ops, True, "exhaustive"))
    cases.extend(gen_users(rng, tier, ENDPOINTS))
    # the archive upload (console config/import, both API versions): the namespace travels in the `tenant` header and the
    # multipart body has a `tenant` text field as well - every combination of the two, as three restricted users
    for name, g in (("white-nsa", (1, 0, "nsa", 0, "-")), ("black-nsb", (1, 1, "-", 0, "nsb")), ("white-default", (1, 0, "@", 0, "-"))):
        ops = ["seed", sess_line("u", g)]
        for ver in ("v1", "v2"):
            for h in ("nsa", "nsb", "omit", "public"):
                for f in ("omit", "nsa", "nsb", "empty"):
                    ops.append("import %s header=%s form=%s session=u" % (ver, h, f))
        cases.append(Case("import-" + name, ops, True, "exhaustive"))
    return cases


# privilege parameters as the console sends them (absent key = absent field): creation, then changes
USER_PARAMS = ["", "wall=0 w=nsa", "wall=0 w=nsa,nsb", "wall=1 b=nsb", "wall=0 w=@,nsa b=nsa", "wall=0 w=- ", "w=nsa",
               "wall=1 ball=0", "ball=1", "b=-", "w=-", "w=nsb b=nsb", "wall=0", "wall=0 w=- b=-", "b=nsa,nsb"]


def gen_users(rng, tier, endpoints):
    """users created and changed through the console's own user endpoints, then logged in for real: the session's
    privilege is what add_user / update_user stored (revocations included), not something the harness fabricates"""
    cases = []
    big = tier == "thorough"
    reads = [e for e in endpoints if e.endswith(("list", "info", "get"))]
    for i in range(60 if big else 10):
        ops = ["seed", ("mkuser a " + rng.choice(USER_PARAMS[:7])).strip(), "login a as=s0"]
        sess = "s0"
        for step in range(rng.randrange(1, 4)):
            for ep in rng.sample(reads, 3) + rng.sample(endpoints, 2):
                ops.append("call %s ns=%s session=%s" % (ep, rng.choice(SPELLINGS), sess))
            ops.append(("upduser a " + rng.choice(USER_PARAMS)).strip())
            sess = "s%d" % (step + 1)
            ops.append("login a as=%s" % sess)
            if rng.random() < 0.5:
                # the session as a follower / a restarted node holds it (decoded from the raft log's encoding)
                ops.append("relog %s" % sess)
        for ep in rng.sample(reads, 4) + rng.sample(endpoints, 3):
            for sp in rng.sample(SPELLINGS, 2):
                ops.append("call %s ns=%s session=%s" % (ep, sp, sess))
        cases.append(Case("users-%d" % i, ops, True, "random"))
    # directed: every way of taking a namespace away again
    for name, first, change in (("clear-whitelist", "wall=0 w=nsa", "w=-"), ("clear-both", "wall=0 w=nsa,nsb b=nsb", "w=- b=-"),
                                ("blacklist-it", "wall=1", "b=nsa"), ("all-off", "wall=1", "wall=0"),
                                ("swap", "wall=0 w=nsa", "w=nsb"), ("clear-blacklist", "wall=1 b=nsa", "b=-")):
        ops = ["seed", "mkuser a " + first, "login a as=s0"]
        for ep in ("v2.config.list", "v2.service.list", "v2.instance.list", "v2.config.add", "v2.namespaces.list"):
            ops.append("call %s ns=nsa session=s0" % ep)
        ops += ["upduser a " + change, "login a as=s1"]
        for relog in (False, True):
            if relog:
                ops.append("relog s1")
            for ep in ("v2.config.list", "v2.service.list", "v2.instance.list", "v2.config.add", "v2.config.info", "v2.namespaces.list",
                       "v1.config.list", "v1.services.list"):
                for sp in ("nsa", "nsb", "omit"):
                    ops.append("call %s ns=%s session=s1" % (ep, sp))
        cases.append(Case("users-" + name, ops, True, "directed"))
    # directed: every shape of privilege group, used through a session that was decoded from the raft log's encoding
    for j, params in enumerate(USER_PARAMS):
        ops = ["seed", ("mkuser a " + params).strip(), "login a as=s0", "relog s0"]
        for ep in ("v2.config.list", "v2.service.list", "v2.config.add", "v2.config.info", "v2.namespaces.list", "v1.config.list"):
            for sp in ("nsa", "nsb", "omit"):
                ops.append("call %s ns=%s session=s0" % (ep, sp))
        cases.append(Case("users-relog-%d" % j, ops, True, "directed"))
    return cases


def region_unchecked(case):
    return any(o.split()[1] in UNCHECKED for o in case.ops if o.startswith("call "))


class C18(Prop):
    id = "C18"
    lean_module = "RNacos.Props.C18"
    level = "proof"
    design_ref = "DESIGN.md §7 C18"
    models = [ModelRun("priv", gen_priv, lambda c: sum(1 for o in c.ops if o.startswith(("call", "import"))) >= 5,
                       spec_needs_impl=True, jobs=8, shrinkable=True, regions={"console.v1_openapi_handlers": region_unchecked},
                       search=lambda rng, b: gen_priv(rng, "thorough")[:b], rule=(
        "the real console App (CheckLogin middleware + console_config) in-process on a complete node; sessions whose "
        "namespace privilege is built by the real UserDo::build_namespace_privilege from stored flags and lists: whitelist "
        "all/empty/{nsa}/{default,nsa}/{nsa,nsb} x blacklist empty/all/{nsb}/{nsa}/{default} x enabled or not; 37 data "
        "endpoints of both API versions (configuration, service, instance, namespace: list/read/create/modify/delete) x "
        "namespace spellings nsa, nsb, an unknown one, 'public', empty, omitted; plus users created and changed through the "
        "console's own /user/add and /user/update (privilege fields present or absent, lists emptied, flags flipped) and "
        "logged in through the real /login/login, so that the session carries what add_user / update_user stored; fixtures in nsa, nsb and the default "
        "namespace whose names carry a marker; writes are verified through the actors and undone. Oracle = "
        "Privilege.build/check applied to the implementation's answer: nothing of an excluded namespace is shown, no "
        "write there takes effect, nothing permitted is refused. non-trivial = >=5 calls"))]
    trusted_base = [
        "hand model RNacos/Model/Privilege.lean of privilege.rs / build_namespace_privilege",
        "the sweep harness classifies answers (refused / served + markers seen / write took effect); MCP endpoints are "
        "not swept",
    ]
    assumptions = ["role checks are C17's subject: all sessions of the sweep carry the admin role"]
