"""C08 — a node caught up by snapshot install serves the same data as the leader."""
from ..runner import Prop, ModelRun
from . import cluster_gen, apply_gen


class C08(Prop):
    id = "C08"
    lean_module = "RNacos.Props.C08"
    level = "proof"
    design_ref = "DESIGN.md §7 C08"
    models = [ModelRun("apply", apply_gen.gen_install, lambda c: any(o.startswith("install") for o in c.ops) and "dumpn" in c.ops,
                       spec_needs_impl=True, jobs=8, shrinkable=True,
                       regions={"install.before_restart": apply_gen.region_install_before_restart,
                                "namespace.upgrade_of_weak_entry": apply_gen.region_ns_upgrade},
                       search=lambda rng, b: apply_gen.gen_install(rng, "thorough")[:b], rule=(
        "complete nodes as child processes (see C07); node N receives nothing until the leader's current snapshot file is "
        "installed on it through its RaftStorage exactly as async-raft does (create_snapshot, the bytes, "
        "finalize_snapshot_installation with delete_through = Some(index) iff its log is longer), as a first-time joiner "
        "and again after it fell behind (log and state below the snapshot); then the entries after the snapshot arrive as "
        "replicated batches with the leader's indexes, and N is restarted gracefully or killed. Oracle: once N has been "
        "sent everything, its dump (served configurations, every component's records) equals the leader's; the "
        "installation and the following appends are accepted. non-trivial = an installation and a comparison")),
              ModelRun("cluster", cluster_gen.gen_install, lambda c: "start 3" in c.ops and any(o.startswith("getall") for o in c.ops),
                       spec_needs_impl=True, jobs=2, shrinkable=False,
                       regions={"install.before_restart": cluster_gen.region_before_restart},
                       search=lambda rng, b: cluster_gen.gen_install(rng, "thorough")[:b], rule=(
        "real rnacos processes on loopback: two nodes form a cluster with a small snapshot threshold (10-25 entries), 30-70 "
        "publishes/removals addressed to both, then the third node is started for the first time (caught up by snapshot "
        "install), restarted, written to again and restarted again; observation = GET /nacos/v1/cs/configs of every key on "
        "every node. Oracle: all live nodes serve the same content and it is the last acknowledged write (or a later one). "
        "non-trivial = contains the late start and a comparison"))]
    trusted_base = [
        "async-raft decides when a snapshot is sent and transfers it; the translator reads what apply_snapshot / "
        "load_snapshot do with the records (RNacos/Gen/Install.lean)",
        "the model (Props/C08.lean) is generic in the state and the loader: it states the composition, not the components",
    ]
    assumptions = ["namespace and user data travel in the same snapshot file as configurations (C01/C07 compare every "
                   "component's records); the cluster scenario observes configurations only",
                   "a started node is waited for until raft's own metrics say it has applied what the others have (bounded by 90 s), "
                   "then 3 s for the components to load; bounds, not proved ones"]
