"""C19 — issued sequence ids are unique and increasing across restarts and nodes."""
from ..core import Case
from ..runner import Prop, ModelRun


def gen_seq(rng, tier):
    cases = []
    big = tier == "thorough"
    keys = ["a", "b", "c"]
    # replicated counters
    for i in range(2000 if big else 150):
        ops = []
        for _ in range(rng.randrange(2, 40)):
            k = rng.choice(keys)
            r = rng.random()
            if r < 0.4:
                ops.append("db nextid %s" % k)
            elif r < 0.85:
                ops.append("db nextrange %s %d" % (k, rng.choice([1, 2, 100, 100, 7, 1000, 0])))
            elif r < 0.93:
                ops.append("db setid %s %d" % (k, rng.choice([0, 1, 5, 1000, 10 ** 12])))
            else:
                ops.append("db removeid %s" % k)
        cases.append(Case("db-%d" % i, ops, True, "random"))
    # double buffer under interleavings of id requests and range arrivals (disjoint ranges, any order)
    for i in range(2000 if big else 150):
        ops = ["g new"]
        nxt = 1
        pending = []
        for _ in range(rng.randrange(2, 50)):
            r = rng.random()
            if r < 0.55:
                ops.append("g next")
            elif r < 0.65:
                ops.append("g need")
            elif r < 0.8:
                ln = rng.choice([0, 1, 2, 3, 5, 100])
                pending.append((nxt, ln))
                nxt += ln
            elif pending:
                j = rng.randrange(len(pending)) if rng.random() < 0.3 else 0
                s, l = pending.pop(j)
                ops.append("g apply %d %d" % (s, l))
        cases.append(Case("group-%d" % i, ops, True, "random"))
    # exhaustive interleavings of <= 7 events over {next, apply of the next disjoint range of len 2}
    if big:
        import itertools
        for n in range(1, 8):
            for pat in itertools.product("na", repeat=n):
                ops = ["g new"]
                nxt = 1
                for p in pat:
                    if p == "n":
                        ops.append("g next")
                    else:
                        ops.append("g apply %d 2" % nxt)
                        nxt += 2
                cases.append(Case("groupx-%s" % "".join(pat), ops, True, "exhaustive"))
    # history ids in a cluster: leader changes and restarts
    for i in range(2000 if big else 150):
        n = rng.randrange(1, 5)
        batch = rng.choice([1, 2, 3, 5, 100, 100])
        ops = ["c new %d %d %d" % (n, rng.choice([0, 0, 7, 1000]), batch)]
        leader = rng.randrange(n)
        for _ in range(rng.randrange(2, 60)):
            r = rng.random()
            if r < 0.7:
                ops.append("c issue %d" % leader)
            elif r < 0.85:
                leader = rng.randrange(n)
            elif r < 0.89:
                ops.append("c restart %d" % rng.randrange(n))
            elif r < 0.93:
                # the node compacts (often the leader, in the middle of its block of ids) ...
                ops.append("c snap %d" % (leader if rng.random() < 0.6 else rng.randrange(n)))
            elif r < 0.97:
                # ... and later restarts from that snapshot plus the log since
                ops.append("c restartsaved %d" % (leader if rng.random() < 0.6 else rng.randrange(n)))
            else:
                ops.append("c ends")
        ops.append("c ends")
        cases.append(Case("cluster-%d" % i, ops, True, "random"))
    # the same on real ConfigActors: the leader draws through the actor, every node applies the committed ConfigAdd with
    # its real set_config (same content re-published or changed), restart = log replay or snapshot load
    for i in range(600 if big else 80):
        n = rng.randrange(1, 4)
        ops = ["r new %d" % n]
        leader = rng.randrange(n)
        for _ in range(rng.randrange(3, 30)):
            r = rng.random()
            if r < 0.55:
                ops.append("r issue %d %s %s" % (leader, rng.choice(["a", "a", "b", "c"]), rng.choice(["same", "new", "new"])))
            elif r < 0.62:
                # run to the end of the 100-id batch so that the next draw announces a new one
                ops += ["r issue %d %s new" % (leader, rng.choice(["a", "b"]))] * rng.choice([99, 100, 101])
            elif r < 0.8:
                leader = rng.randrange(n)
            elif r < 0.88:
                ops.append("r restart %d %s" % (rng.randrange(n), rng.choice(["snap", "replay"])))
            elif r < 0.93:
                ops.append("r snap %d" % (leader if rng.random() < 0.6 else rng.randrange(n)))
            elif r < 0.97:
                ops.append("r restartsaved %d" % (leader if rng.random() < 0.6 else rng.randrange(n)))
            else:
                ops.append("r ends")
        ops.append("r ends")
        cases.append(Case("actors-%d" % i, ops, True, "random"))
    # directed: compaction in the middle of a block on the node that draws, more draws, restart from it, draw again
    for fam in ("c", "r"):
        for extra in (1, 2, 99):
            new = "c new 2 0 100" if fam == "c" else "r new 2"
            iss = (lambda i: "c issue %d" % i) if fam == "c" else (lambda i: "r issue %d a new" % i)
            ops = [new, iss(0), iss(0), "%s snap 0" % fam] + [iss(0)] * extra + ["%s restartsaved 0" % fam, iss(0), iss(1), "%s ends" % fam]
            cases.append(Case("midblock-%s-%d" % (fam, extra), ops, True, "boundary"))
    return cases


class C19(Prop):
    id = "C19"
    lean_module = "RNacos.Props.C19"
    level = "proof"
    design_ref = "DESIGN.md §7 C19"
    models = [ModelRun("sequence", gen_seq, lambda c: len(c.ops) >= 3, spec_needs_impl=True, search=lambda rng, b: gen_seq(rng, "thorough")[:b], rule=(
        "random op sequences on the real SequenceDbManager actor (3 keys, steps 0/1/2/7/100/1000, resets), on the real "
        "SeqGroup with disjoint ranges arriving in and out of order (thorough: every interleaving of <=7 events), and on "
        "1-4 real SimpleSequence objects wired as ConfigActor wires them (leader draws, mark applied by all, restart = "
        "get_end_id/set_last_id); oracle = uniqueness / monotonicity of the implementation's own answers; "
        "non-trivial = >=3 ops; distinct = sha1 of the op list"))]
    trusted_base = [
        "hand models RNacos/Model/Sequence.lean; the cluster wiring of SimpleSequence (mark applied on every node, "
        "restart = get_end_id + set_last_id) is re-stated in the harness from src/config/core.rs:463-466,665-692,788",
        "assumption: the request that carries a new high-water mark commits (its Raft error is not swallowed – see C06)",
        "async-raft applies committed requests in the same order on every node",
    ]
    assumptions = ["u64 overflow of counters is out of scope (ids are Nat)"]
