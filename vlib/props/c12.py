"""C12 — registry queries return exactly live registrations; disconnect removes own only."""
from ..core import Case
from ..runner import Prop, ModelRun
from . import naming_gen as g


def gen(rng, tier):
    cases = []
    big = tier == "thorough"
    for i in range(4000 if big else 300):
        ops = g.gen_mixed(rng, rng.randrange(4, 40))
        # make sure queries and disconnects are exercised in every case
        extra = []
        for s in g.SVCS:
            extra.append("list svc=%s ho=%d" % (s, rng.randrange(2)))
        extra.append("rmclient %s now=900000" % rng.choice(g.CLIENTS))
        extra.append("rmclientc %s now=900001" % rng.choice(g.REMOTE))
        for s in g.SVCS:
            extra.append("list svc=%s ho=0" % s)
        cases.append(Case("q-%d" % i, ops + extra + ["audit"], True, "random"))
    # protection threshold boundaries: k healthy of n, threshold just below / at / above k/n
    for n in range(1, 6):
        for k in range(0, n + 1):
            for p in sorted(set([0, max(0, k * 1000 // n - 1), k * 1000 // n, min(1000, k * 1000 // n + 1), 1000])):
                ops = ["setprotect svc=ns|g|s1 p=%d" % p]
                for j in range(n):
                    ops.append("upd svc=ns|g|s1 ip=10.0.1.%d port=80 eph=1 grpc=1 fc=0 cid=1_c1 healthy=%d en=1 w=1000 tag=- sync=0 now=%d" % (
                        j, 1 if j < k else 0, 1000 + j))
                ops += ["list svc=ns|g|s1 ho=1", "list svc=ns|g|s1 ho=0"]
                cases.append(Case("protect-%d-%d-%d" % (n, k, p), ops, True, "boundary"))
    return cases


class C12(Prop):
    id = "C12"
    lean_module = "RNacos.Props.C12"
    level = "proof"
    design_ref = "DESIGN.md §7 C12"
    models = [ModelRun("naming", gen, lambda c: len(c.ops) >= 4, impl_env=g.IMPL_ENV, spec_needs_impl=True,
                       search=lambda rng, b: gen(rng, "quick") * 2, rule=(
        "the C11 histories followed by instance queries (all / healthy-only) on every service and by closing one local and "
        "one remote-node connection; complete enumeration of k healthy of n (n<=5) instances against thresholds just below, "
        "at and above k/n; oracle (on the implementation's own answers): the filtered list equals the enabled registered "
        "instances filtered by health unless the threshold is reached; a closing connection removes exactly its own "
        "ephemeral instances"))]
    trusted_base = [
        "hand model RNacos/Model/Naming.lean; weights and thresholds are thousandths (dyadic / exact in f32 for the values used)",
        "metadata overrides from the console are not modelled (they do not change address, flags or weight)",
        "frozen wall clock through the LD_PRELOAD shim",
    ]
    assumptions = ["actix FIFO mailbox; each NamingCmd handler runs atomically"]
