"""generators for the `naming` model (C11, C12, C13)"""
import os
from ..core import Case, VERIF

SHIM = os.path.join(VERIF, ".build", "clockshim.so")
IMPL_ENV = {"LD_PRELOAD": SHIM}

SVCS = ["ns|g|s1", "ns|g|s2", "-|DEFAULT_GROUP|s1"]
ADDRS = [("10.0.0.1", 80), ("10.0.0.2", 80), ("10.0.0.1", 81), ("10.0.0.3", 8080)]
CLIENTS = ["1_c1", "1_c2", "1_c3"]
REMOTE = ["2_x1", "3_y1"]
TAGS = ["-", "-", "-", "none", "w", "e", "p", "m", "we", "ep", "wmep", "wmepu", "mu"]


def upd(rng, svc, addr, origin, now, avoid=None, **kw):
    """origin: http | grpc | sync | syncgrpc"""
    d = dict(eph=1, grpc=0, fc=0, cid="-", healthy=1, en=1, w=rng.choice([1000, 1000, 500, 2000, 0]), tag="-", sync=0)
    if origin == "grpc":
        d.update(grpc=1, cid=rng.choice(CLIENTS))
    elif origin == "sync":
        d.update(fc=rng.choice([2, 3]), cid=rng.choice(REMOTE), sync=1)
    elif origin == "syncgrpc":
        d.update(grpc=1, fc=rng.choice([2, 3]), cid=rng.choice(REMOTE), sync=1)
    d.update(kw)
    return ("upd svc=%s ip=%s port=%d eph=%d grpc=%d fc=%d cid=%s healthy=%d en=%d w=%d tag=%s sync=%d now=%d" % (
        svc, addr[0], addr[1], d["eph"], d["grpc"], d["fc"], d["cid"], d["healthy"], d["en"], d["w"], d["tag"], d["sync"], now)), d


def gen_mixed(rng, n, avoid_f14=False, avoid_f15=False, avoid_f16=False):
    """mixed histories. The avoid_* switches keep the case outside the regions of the findings F14/F15/F16
    while those are open (stability rule); they are dropped once a finding is fixed."""
    ops = []
    now = 1000
    owner = {}      # (svc, addr) -> dict of last registration
    if rng.random() < 0.25:
        ops.append("range now=%d" % now)   # this node owns every key: http registrations are stamped as local
    for _ in range(n):
        now += rng.choice([1, 10, 100, 1000, 5000, 20000])
        r = rng.random()
        svc = rng.choice(SVCS)
        addr = rng.choice(ADDRS)
        if r < 0.5:
            origin = rng.choice(["http", "http", "grpc", "grpc", "sync", "syncgrpc"])
            kw = {}
            if rng.random() < 0.25:
                kw["eph"] = 0
            if rng.random() < 0.15:
                kw["healthy"] = 0
            if rng.random() < 0.15:
                kw["en"] = 0
            if rng.random() < 0.4:
                kw["tag"] = rng.choice(TAGS)
            old = owner.get((svc, addr))
            if avoid_f14 and old and old["grpc"] == 1 and origin in ("sync",) and kw.get("eph", 1) == 1:
                continue        # F14: sync/HTTP-style update over a gRPC-owned instance with another client id
            if avoid_f15 and origin in ("grpc", "syncgrpc", "sync") and kw.get("eph", 1) == 0:
                continue        # F15: persistent instance recorded for a client connection
            if avoid_f15 and old and old.get("cid", "-") != "-" and ("p" in kw.get("tag", "") or kw.get("tag", "-") == "-") and kw.get("eph", 1) == 0:
                continue
            if avoid_f16 and kw.get("healthy", 1) == 0:
                continue        # F16: registered unhealthy
            line, d = upd(rng, svc, addr, origin, now, **kw)
            ops.append(line)
            owner[(svc, addr)] = d
        elif r < 0.57:
            cid = rng.choice(["-", "-"] + CLIENTS + REMOTE)
            ops.append("del svc=%s ip=%s port=%d cid=%s now=%d" % (svc, addr[0], addr[1], cid, now))
        elif r < 0.585:
            # the apply of a committed Raft removal of a persistent record (sent on deregistration of a persistent
            # instance and when a persistent instance is re-registered as ephemeral)
            ops.append("raftrm svc=%s ip=%s port=%d now=%d" % (svc, addr[0], addr[1], now))
        elif r < 0.605:
            # what a peer's sync sends: a batch of (ephemeral, replicated) instances, a batch of removals, the clients of
            # a node that went away
            kind = rng.choice(["updbatch", "updbatch", "delbatch", "rmclients", "digest"])
            if kind == "digest":
                # a peer's digest of its gRPC connections: for each named connection the instances it holds
                parts = []
                for _ in range(rng.randrange(1, 4)):
                    parts.append("cid=%s svc=%s ip=%s port=%d" % ((rng.choice(REMOTE + ["2_x9"]), rng.choice(SVCS)) + rng.choice(ADDRS)))
                ops.append("digest fc=2 now=%d | %s" % (now, " | ".join(parts)))
            elif kind == "rmclients":
                ops.append("rmclients %s now=%d" % (" ".join(rng.sample(CLIENTS + REMOTE, rng.randrange(1, 4))), now))
            else:
                parts = []
                for _ in range(rng.randrange(1, 4)):
                    bs, ba = rng.choice(SVCS), rng.choice(ADDRS)
                    origin = rng.choice(["sync", "syncgrpc"])
                    old = owner.get((bs, ba))
                    if avoid_f14 and old and old["grpc"] == 1 and origin == "sync":
                        continue
                    line, d = upd(rng, bs, ba, origin, now, tag="-")
                    if kind == "updbatch":
                        owner[(bs, ba)] = d
                    parts.append(" ".join(w for w in line.split()[1:] if not w.startswith(("now=", "tag=", "sync="))))
                if parts:
                    ops.append("%s now=%d | %s" % (kind, now, " | ".join(parts)))
        elif r < 0.62:
            # the TCP probe of a persistent instance's host reports its result
            ops.append("probe svc=%s ip=%s port=%d ok=%d now=%d" % (svc, addr[0], addr[1], rng.randrange(2), now))
        elif r < 0.67:
            ops.append("%s %s now=%d" % (rng.choice(["rmclient", "rmclientc"]), rng.choice(CLIENTS + REMOTE), now))
        elif r < 0.75:
            ops.append("timecheck now=%d" % now)
        elif r < 0.78:
            ops.append("rmservice svc=%s now=%d" % (svc, now))
        elif r < 0.80:
            ops.append("setprotect svc=%s p=%d" % (svc, rng.choice([0, 300, 500, 1000])))
        elif r < 0.86:
            ops.append("list svc=%s ho=%d" % (svc, rng.randrange(2)))
        elif r < 0.88:
            ops.append("all svc=%s" % svc)
        elif r < 0.895:
            ops.append("ipage svc=%s ho=%d size=%d idx=%d" % (svc, rng.randrange(2), rng.choice([1, 2, 3, 10]), rng.choice([0, 1, 1, 2, 3])))
        elif r < 0.9:
            ops.append("selectone svc=%s" % svc)
        elif r < 0.93:
            ops.append(rng.choice(["info", "clients"]))
        else:
            ops.append("audit")
    ops.append("audit")
    for s in SVCS:
        ops.append("list svc=%s ho=1" % s)
        ops.append("ipage svc=%s ho=0 size=2 idx=%d" % (s, rng.choice([1, 2])))
        ops.append("selectone svc=%s" % s)
    return ops


def gen_timeline(rng, n_inst=3):
    """C13: registrations, heartbeats and silences around the two time-outs (18 s / 33 s)"""
    ops = []
    svc = rng.choice(SVCS)
    insts = rng.sample(ADDRS, n_inst)
    kinds = [rng.choice(["http", "http", "http", "persistent", "grpc"]) for _ in insts]
    now = 1000
    for a, k in zip(insts, kinds):
        kw = {}
        if k == "persistent":
            kw = dict(eph=0)
        line, _ = upd(rng, svc, a, "grpc" if k == "grpc" else "http", now, **kw)
        ops.append(line)
    # now and then a persistent instance is re-registered as an ephemeral one; the Raft removal of the persistent record
    # follows: from then on it is an ordinary ephemeral HTTP instance
    for j, (a, k) in enumerate(zip(insts, kinds)):
        if k == "persistent" and rng.random() < 0.4:
            now += 1000
            ops.append("upd svc=%s ip=%s port=%d eph=1 grpc=0 fc=0 cid=- healthy=1 en=1 w=1000 tag=- sync=0 now=%d" % (svc, a[0], a[1], now))
            ops.append("raftrm svc=%s ip=%s port=%d now=%d" % (svc, a[0], a[1], now + 50))
            kinds[j] = "http"
    beating = [rng.random() < 0.6 for _ in insts]
    for step in range(rng.randrange(3, 14)):
        now += rng.choice([2000, 5000, 5000, 17990, 18000, 18010, 15000, 33000, 33010, 40000])
        for a, k, b in zip(insts, kinds, beating):
            if b and k in ("http", "persistent") and rng.random() < 0.85:
                # a heartbeat: PUT /instance/beat sends the instance with an update tag in which nothing is set
                # (tag=none) and ephemeral = true unless the client says otherwise - also for an instance that was
                # registered as persistent; now and then a client re-registers instead (tag=-)
                if k == "http" and rng.random() < 0.25:
                    tag, eph = "-", 1
                else:
                    tag, eph = "none", (1 if rng.random() < 0.85 else 0)
                ops.append("upd svc=%s ip=%s port=%d eph=%d grpc=0 fc=0 cid=- healthy=1 en=1 w=1000 tag=%s sync=0 now=%d" % (
                    svc, a[0], a[1], eph, tag, now - rng.choice([0, 1, 500])))
        # the host probe of persistent instances (every 60 s in production) reports now and then, failing or not
        for a, k in zip(insts, kinds):
            if k == "persistent" and rng.random() < 0.3:
                ops.append("probe svc=%s ip=%s port=%d ok=%d now=%d" % (svc, a[0], a[1], 0 if rng.random() < 0.6 else 1, now))
        ops.append("timecheck now=%d" % now)
        if rng.random() < 0.5:
            ops.append("timecheck now=%d" % (now + 2000))
            now += 2000
        ops.append("all svc=%s" % svc)
        if rng.random() < 0.2:
            i = rng.randrange(len(insts))
            beating[i] = not beating[i]
    ops.append("audit")
    return ops


def region_takeover(case):
    """finding F16c: an http instance replicated from another node (fc>0, no client id) followed by a range refresh"""
    seen = False
    for op in case.ops:
        w = op.split()
        if w[0] == "upd" and "grpc=0" in w and "cid=-" in w and "eph=1" in w and not any(x == "fc=0" for x in w):
            seen = True
        elif w[0] == "range" and seen:
            return True
    return False


def gen_registry_restart(rng, tier):
    """C01: the registry is replaced by a fresh one that loads the snapshot of the current one (`reload`), at arbitrary
    points of mixed histories; the model (`Naming.buildSnapshot` / `loadSnapshot`, round trip proved in Props/C01) must
    predict the snapshot records (`snap`) and everything the registry answers afterwards"""
    cases = []
    for i in range(400 if tier == "thorough" else 40):
        ops = []
        now = 1000
        for _ in range(rng.randrange(4, 16)):
            now += rng.choice([1, 10, 100, 1000])
            r = rng.random()
            svc = rng.choice(SVCS)
            addr = rng.choice(ADDRS)
            if r < 0.6:
                kw = {"eph": rng.choice([0, 0, 1])}
                if rng.random() < 0.2:
                    kw["healthy"] = 0
                if rng.random() < 0.2:
                    kw["en"] = 0
                if rng.random() < 0.3:
                    kw["tag"] = rng.choice(TAGS)
                line, _ = upd(rng, svc, addr, rng.choice(["http", "http", "grpc", "sync"]), now, **kw)
                ops.append(line)
            elif r < 0.7:
                ops.append("del svc=%s ip=%s port=%d cid=- now=%d" % (svc, addr[0], addr[1], now))
            elif r < 0.78:
                ops.append("raftrm svc=%s ip=%s port=%d now=%d" % (svc, addr[0], addr[1], now))
            elif r < 0.86:
                ops.append("snap now=%d" % now)
            else:
                ops += ["snap now=%d" % now, "reload now=%d" % now, "audit", "snap now=%d" % now]
        ops += ["snap now=%d" % (now + 1), "reload now=%d" % (now + 2), "audit"] + ["all svc=%s" % s for s in SVCS] + ["info", "clients"]
        cases.append(Case("registry-restart-%d" % i, ops, False, "random"))
    return cases
