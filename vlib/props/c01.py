"""C01 — served state survives restart: snapshot plus log replay reproduces it exactly."""
from ..runner import Prop, ModelRun
from . import apply_gen, naming_gen


class C01(Prop):
    id = "C01"
    lean_module = "RNacos.Props.C01"
    level = "proof"
    design_ref = "DESIGN.md §7 C01"
    models = [ModelRun("apply", apply_gen.gen_restart, lambda c: sum(1 for o in c.ops if o.startswith("req")) >= 3 and "dump" in c.ops,
                       spec_needs_impl=True, jobs=8, shrinkable=True,
                       regions={"naming.metadata_changes": apply_gen.region_metadata,
                                "namespace.upgrade_of_weak_entry": apply_gen.region_ns_upgrade},
                       search=lambda rng, b: apply_gen.gen_restart(rng, "thorough")[:b], rule=(
        "three complete nodes as child processes (see C07); node L is never stopped and serves as the record of what was "
        "served; node R (and sometimes F) is compacted (do_log_compaction), restarted gracefully or killed (-9, after a "
        "round trip) at arbitrary points of request sequences over 22 request kinds, incl. compaction attempts that are "
        "interrupted after the snapshot file was written (then killed) followed by deletions and a successful compaction - "
        "directed for every component that lies late in the snapshot file. Oracle: after every restart the node's dump "
        "(served configuration values with md5/type/description/history; every component's snapshot records; last "
        "applied and last log index) equals that of the node that never stopped, and the ids a sequence request hands out "
        "are the same on both. The Lean models of the namespace, sequence and table components predict node L's answers "
        "and snapshot records (correspondence). non-trivial = >=3 requests and a dump"))]
    models.append(ModelRun("naming", naming_gen.gen_registry_restart, lambda c: any(o.startswith("reload") for o in c.ops),
                           impl_env=naming_gen.IMPL_ENV, rule=(
        "the real NamingActor: mixed histories of registrations (persistent and ephemeral; HTTP, gRPC, replicated; update "
        "tags), removals and committed Raft removals; at arbitrary points the snapshot records are read (real "
        "build_snapshot through the real snapshot writer and reader) and the actor is replaced by a fresh one that loads "
        "them (real load_snapshot_record). The Lean model of the registry with buildSnapshot / loadSnapshot (round trip "
        "proved: naming_component_roundtrip) must predict the records and every later answer and counter. "
        "non-trivial = contains a reload")))
    trusted_base = [
        "the dispatch tables are re-extracted from raftdata.rs by /verif/translate/translate.py (purpose-built recogniser "
        "of the three match expressions; an unknown shape is an error); components are arbitrary in the theorems",
        "the harness calls the RaftStorage methods in the order async-raft does (append before apply, replicate_to_log "
        "before replicate_to_state_machine); async-raft itself is not exercised here",
        "components other than the configuration store are compared through their own snapshot encoding plus the "
        "configuration queries: a field that an encoder drops is invisible unless it changes what the configuration queries "
        "or the re-encoded snapshot show; MCP and cache requests are not generated",
    ]
    assumptions = ["committed sequences contain no malformed ConfigFullValue payload (they are produced by to_bytes); the "
                   "divergence for a malformed one is a visible theorem (malformed_request_diverges)",
                   "each component processes its mailbox in order (actix)"]
