"""C16 — with auth on, no data endpoint (HTTP or gRPC) is served without a valid token."""
from ..core import Case
from ..runner import Prop, ModelRun
from . import cluster_gen

# (method, canonical path, query) – data endpoints and the property's exceptions
ENDPOINTS = [
    ("GET", "/nacos/v1/cs/configs", "dataId=verif&group=g"),
    ("POST", "/nacos/v1/cs/configs", "dataId=verif&group=g&content=c"),
    ("DELETE", "/nacos/v1/cs/configs", "dataId=verif2&group=g"),
    ("POST", "/nacos/v1/cs/configs/listener", ""),
    ("GET", "/nacos/v1/ns/instance/list", "serviceName=s"),
    ("GET", "/nacos/v1/ns/instance", "serviceName=s&ip=1.1.1.1&port=80"),
    ("POST", "/nacos/v1/ns/instance", "serviceName=s&ip=1.1.1.1&port=80"),
    ("PUT", "/nacos/v1/ns/instance/beat", "serviceName=s&ip=1.1.1.1&port=80"),
    ("DELETE", "/nacos/v1/ns/instance", "serviceName=s&ip=1.1.1.1&port=80"),
    ("GET", "/nacos/v1/ns/service/list", "pageNo=1&pageSize=10"),
    ("GET", "/nacos/v1/ns/service", "serviceName=s"),
    ("POST", "/nacos/v1/ns/service", "serviceName=s2"),
    ("GET", "/nacos/v1/ns/catalog/instances", "serviceName=s&pageNo=1&pageSize=10"),
    ("GET", "/nacos/v1/ns/operator/metrics", ""),
    ("GET", "/nacos/v1/console/namespaces", ""),
    ("POST", "/nacos/v1/console/namespaces", "customNamespaceId=n1&namespaceName=n1"),
    ("GET", "/nacos/v2/console/namespace/list", ""),
    ("GET", "/nacos/v1/raft/metrics", ""),
    ("GET", "/nacos/v1/raft/init", ""),
    ("POST", "/nacos/v1/raft/add-learner", ""),
    ("GET", "/nacos/health", ""),
    ("GET", "/nacos/metrics", ""),
    ("GET", "/nacos/v1/raft/close-write", ""),
    ("POST", "/nacos/v1/auth/login", "username=a&password=b"),
    ("POST", "/nacos/v1/auth/users/login", "username=a&password=b"),
    ("POST", "/rnacos/v1/auth/user/login", "username=a&password=b"),
    ("GET", "/rnacos/v1/mcp/list", ""),
    ("GET", "/rnacos/backup", ""),
    ("GET", "/", ""),
    ("GET", "/rnacos/anything", ""),
]
CARRIERS = ["none", "auth", "bearer", "header", "query", "body"]
TOKENS = ["none", "empty", "garbage", "expired", "valid"]
GRPC_TYPES = ["ConfigQueryRequest", "ConfigPublishRequest", "ConfigRemoveRequest", "ConfigBatchListenRequest",
              "InstanceRequest", "BatchInstanceRequest", "SubscribeServiceRequest", "ServiceQueryRequest",
              "ServiceListRequest", "RaftAppendRequest", "RaftSnapshotRequest", "RaftVoteRequest", "RaftRouteRequest",
              "NamingRouteRequest", "HealthCheckRequest", "ServerCheckRequest", "BogusRequest", "configqueryrequest"]


def enc(ch):
    return "%%%02X" % ord(ch)


def spellings(rng, path):
    """spellings of a path: identity first, then variants (some still reach a handler, some do not)"""
    out = [path]
    segs = path.split("/")
    if len(path) > 1:
        i = rng.randrange(1, len(segs))
        up = list(segs)
        up[i] = up[i].upper()
        out.append("/".join(up))
        out.append(path + "/")
        out.append("/" + path)
        j = rng.randrange(1, len(segs))
        out.append("/".join(segs[:j]) + "//" + "/".join(segs[j:]))
        # percent-encode one letter (upper and lower hex), a slash, and a whole segment
        letters = [k for k, c in enumerate(path) if c.isalpha()]
        for _ in range(3):
            k = rng.choice(letters)
            e = enc(path[k])
            out.append(path[:k] + (e if rng.random() < 0.5 else e.lower()) + path[k + 1:])
        slashes = [k for k, c in enumerate(path) if c == "/" and k > 0]
        if slashes:
            k = rng.choice(slashes)
            out.append(path[:k] + "%2F" + path[k + 1:])
        seg = rng.randrange(1, len(segs))
        enc_seg = list(segs)
        enc_seg[seg] = "".join(enc(c) for c in segs[seg])
        out.append("/".join(enc_seg))
        out.append(path + ";v=1")
        out.append(path + "%00")
        out.append(path.replace("/v1/", "/v1/./", 1))
    return out


def gen_http(rng, tier):
    cases = []
    big = tier == "thorough"
    for n, (method, path, query) in enumerate(ENDPOINTS):
        ops = []
        for sp in spellings(rng, path):
            combos = [(c, t) for c in CARRIERS for t in TOKENS]
            if not big:
                combos = [("none", "none")] + rng.sample(combos, 5)
            for c, t in combos:
                if c == "none" and t != "none":
                    continue
                uri = sp + ("?" + query if query else "")
                ops.append("http %s %s carrier=%s tok=%s canon=%s" % (method, uri, c, t, path))
        cases.append(Case("http-%d-%s" % (n, path.strip("/").replace("/", "_") or "root"), ops, True, "sweep"))
    # random garbage paths (correspondence of the decision function on arbitrary input)
    alphabet = "/nacosNACOSrv12.%6Ee-_;"
    for i in range(60 if big else 15):
        ops = []
        for _ in range(20):
            p = "/" + "".join(rng.choice(alphabet) for _ in range(rng.randrange(1, 25)))
            ops.append("http GET %s carrier=%s tok=%s" % (p, rng.choice(CARRIERS), rng.choice(TOKENS)))
        cases.append(Case("Mhttp-rand-%d" % i, ops, True, "random"))
    # gRPC without a configured cluster token
    ops = []
    for ty in GRPC_TYPES:
        for s in (0, 1):
            for cv in (0, 1):
                ops.append("grpc %s session=%d clustervalid=%d clustercfg=0" % (ty, s, cv))
    cases.append(Case("grpc-nocfg", ops, True, "exhaustive"))
    srv = []
    for ty in GRPC_TYPES:
        for tok in ("none", "empty", "valid", "garbage"):
            for ct in ("none", "empty", "garbage"):
                srv.append("grpcsrv %s token=%s ctoken=%s clustercfg=0" % (ty, tok, ct))
    cases.append(Case("grpcsrv-nocfg", srv, True, "exhaustive"))
    return cases


def gen_grpc_cluster(rng, tier):
    ops = []
    for ty in GRPC_TYPES:
        for s in (0, 1):
            for cv in (0, 1):
                ops.append("grpc %s session=%d clustervalid=%d clustercfg=1" % (ty, s, cv))
    # the same decisions through the real gRPC service object: the headers of the payload decide (user token x cluster
    # token: absent, empty, a prefix of the configured one, the configured one, a longer one, garbage)
    srv = []
    for ty in GRPC_TYPES:
        for tok in ("none", "empty", "valid", "garbage"):
            for ct in ("none", "empty", "prefix", "exact", "longer", "garbage"):
                srv.append("grpcsrv %s token=%s ctoken=%s clustercfg=1" % (ty, tok, ct))
    return [Case("grpc-clustercfg", ops, True, "exhaustive"), Case("grpcsrv-clustercfg", srv, True, "exhaustive")]


class C16(Prop):
    id = "C16"
    lean_module = "RNacos.Props.C16"
    level = "proof"
    design_ref = "DESIGN.md §7 C16"
    models = [
        ModelRun("openapi", gen_http, lambda c: len(c.ops) >= 2, spec_needs_impl=True, shrinkable=True, rule=(
            "30 endpoints (data endpoints + the property's exceptions + pages) x 14 spellings (case, trailing/double slash, "
            "percent-encoded letters, slash, whole segment, ;param, %00, /./) x token carriers {none, Authorization, Bearer, "
            "accessToken header, query, form body} x token values {absent, empty, garbage, expired, valid} through the real "
            "ApiCheckAuth middleware wrapped around the real app_config in-process (quick: 6 carrier/token combinations per "
            "spelling, thorough: all); random garbage paths; every gRPC request type x session x cluster-token validity through "
            "the real InvokerHandler::handle. oracle: a request that reaches a handler of a non-exempt endpoint without a "
            "valid token must have been refused. non-trivial = >=2 ops")),
        ModelRun("openapi", gen_grpc_cluster, lambda c: len(c.ops) >= 2, spec_needs_impl=True,
                 impl_env={"RNACOS_CLUSTER_TOKEN": "xyzw"}, rule="same gRPC sweep on a node started with a cluster token"),
        ModelRun("cluster", cluster_gen.gen_tokens, lambda c: sum(1 for o in c.ops if o.startswith("tget")) >= 3,
                 spec_needs_impl=True, shrinkable=False, rule=(
            "the repository's own binary with RNACOS_ENABLE_OPEN_API_AUTH=true and access tokens that live 3 s: real logins, "
            "reads and publishes with the token, without one, with a made-up one; the token's lifetime passes; the node is "
            "killed and restarted (it replays the log entry that stored the token). oracle: a request without a valid token "
            "- absent, made-up, or older than the lifetime - is answered 403 before and after every restart")),
    ]
    trusted_base = [
        "hand model RNacos/Model/Auth.lean over tables re-extracted by translate/translate.py (IGNORE_PATH, the two regex "
        "literals in recognised shape, ignore_auth / is_cluster_request disjunctions, guard order of InvokerHandler::handle)",
        "actix-web routing and actix_router::Quoter::requote (modelled: every %XX decoded except %25 %2F %2B)",
        "gRPC: both InvokerHandler::handle and the service object RequestServerImpl::request (with fill_token_session reading the payload headers) are executed in-process; the tonic transport is not",
        "token expiry is the cache's TTL: an expired token is represented by a cache entry whose ttl has passed",
    ]
    assumptions = ["main.rs wraps the app in ApiCheckAuth exactly as the in-process sweeps do; the wiring itself is executed only by the "
                   "token scenario that runs the real binary"]
