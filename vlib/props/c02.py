"""C02 — Raft log: acknowledged entries survive reopen unchanged; none are invented."""
from ..runner import Prop, ModelRun
from . import log_gen


class C02(Prop):
    id = "C02"
    lean_module = "RNacos.Props.C02"
    level = "proof"
    design_ref = "DESIGN.md §7 C02"
    models = [ModelRun("logfile", log_gen.gen_append, lambda c: any(o.startswith("reopen") for o in c.ops),
                       spec_needs_impl=True, jobs=8,
                       search=lambda rng, b: log_gen.gen_append(rng, "thorough")[:b], rule=(
        "one log file (real LogInnerManager on a real file): record sequences whose frames end exactly on the 1024-byte "
        "read boundary of the end-of-log scan (frame sizes 16/32/64/128, 0..70 records past the boundary); 260..1500 "
        "records of sizes that make the 128-record index step 2 or 3 bytes wide, from start index 1 and 1000, reads "
        "across index entries; random histories of appends (1..200 at a time), rejected non-contiguous appends, "
        "reads, reopen with the catalogue's split-off moved forward, a few with truncations; each followed by "
        "last-index, full read and file hash before and after reopen. Oracle = list of acknowledged entries. "
        "non-trivial = contains a reopen"))]
    models.append(ModelRun("logstore", lambda rng, tier: log_gen.gen_store(rng, tier, "append"),
                           lambda c: any(o.startswith(("a ", "b ")) for o in c.ops) and "reopen" in c.ops,
                           spec_needs_impl=True, jobs=8,
                           search=lambda rng, b: log_gen.gen_store(rng, "thorough", "append")[:b], rule=(
        "the whole log through the real FileStore (RaftIndexManager + RaftLogManager + log actors on real files, a fresh "
        "actor system per session): single appends and batches of 1..100 entries that roll over into new log files "
        "(small index geometry through the guarded hook: a file is full after ~44-60 records), rejected non-contiguous "
        "appends, delete_logs_from at cut points in every file and on file boundaries, compaction pointers, reopen; "
        "then last-index and a full read, again after a reopen. Model = specification: the list of acknowledged "
        "entries (RNacos/Model/LogStore.lean); after cuts, compactions and reopens the catalogue of log files the real manager "
        "has persisted (`cat`) is judged by the decidable part of the manager model's invariant (rowsOK, lastOK) and "
        "against the specification's log. non-trivial = at least one append and one reopen")))
    trusted_base = [
        "manager level (several files): hand model RNacos/Model/LogManager.lean of RaftLogManager with *when a file is "
        "full* as a parameter; invariant Chain; theorems manager_{append,get,delete,pointer}_refines show its operations "
        "equal to the list specification for every file geometry. The tie to the code is (a) the list-level "
        "correspondence on real files and (b) the invariant's decidable part checked on the real persisted catalogue; the "
        "model's step functions themselves are not executed against the code (rollover points are not predicted)",
        "hand model RNacos/Model/LogFile.lean of LogInnerManager (file bytes incl. index area, cursors, the data "
        "handle's position); the 1024-byte chunked readers are represented by the whole-stream parse, which C20's "
        "theorems prove equal for every chunking of a well-formed stream",
        "quick-protobuf encoding of LogRecord is modelled (tags 8/16/42), its decoder for unknown wire types 1/5 too",
    ]
    assumptions = ["file writes are whole and in program order (crashes are C04's subject)"]
