"""C11 — registry bookkeeping: counters, indexes, reverse maps always match instances."""
from ..core import Case
from ..runner import Prop, ModelRun
from . import naming_gen as g


def gen(rng, tier):
    cases = []
    big = tier == "thorough"
    for i in range(4000 if big else 300):
        cases.append(Case("reg-%d" % i, g.gen_mixed(rng, rng.randrange(4, 45)), True, "random"))
    for i in range(400 if big else 40):
        cases.append(Case("tl-%d" % i, g.gen_timeline(rng), True, "random"))
    return cases


class C11(Prop):
    id = "C11"
    lean_module = "RNacos.Props.C11"
    level = "proof"
    design_ref = "DESIGN.md §7 C11"
    models = [ModelRun("naming", gen, lambda c: len(c.ops) >= 4, impl_env=g.IMPL_ENV, spec_needs_impl=True,
                       search=lambda rng, b: gen(rng, "quick") * 2, rule=(
        "random histories (4-45 ops) over 3 services x 4 addresses x 3 gRPC clients + 2 remote-node clients: register/update "
        "from HTTP, gRPC, cluster sync (with and without gRPC origin), update tags (none, every single flag, combinations, "
        "console), ephemeral<->persistent and enabled/healthy flips, deregistration with matching/foreign/empty client ids, "
        "client removal (local and from cluster), time checks on a frozen clock, console service removal, protection "
        "threshold changes; `audit` = hook dump of counters/sets/index + the instances the public queries return; oracle "
        "checks count = |instances|, healthy count, persistent set, index listing, client map on the implementation's own "
        "answers. non-trivial = >=4 ops"))]
    trusted_base = [
        "hand model RNacos/Model/Naming.lean (metadata, cluster names, listener/cluster/raft notifications not modelled)",
        "the wall clock is frozen per op by an LD_PRELOAD shim (clock_gettime(CLOCK_REALTIME)); the actor's own 2 s "
        "heartbeat cannot interleave because every case finishes within 1.5 s of real time (else it is discarded)",
        "process range: only 'no range' and the full range (0,1) are exercised (hash residues are not reproducible in the model)",
    ]
    assumptions = ["actix FIFO mailbox; each NamingCmd handler runs atomically"]
