"""C20 — length-prefixed record streams decode identically under every chunking."""
from ..core import Case
from ..runner import Prop, ModelRun


def varint(v):
    out = []
    while v > 0x7F:
        out.append((v & 0x7F) | 0x80)
        v >>= 7
    out.append(v)
    return bytes(out)


def hx(b):
    return b.hex() if b else "-"


def body(rng, n):
    """token + raw bytes of a body of n bytes (big bodies are a repeated short pattern)"""
    if n <= 64:
        b = bytes(rng.randrange(256) for _ in range(n))
        return b
    pat = bytes(rng.randrange(256) for _ in range(rng.choice([1, 3, 7])))
    return (pat * (n // len(pat) + 1))[:n]


def tok(b):
    """compress a byte string into the token grammar (runs of zeros → zN)"""
    if not b:
        return "-"
    segs = []
    i = 0
    n = len(b)
    cur = bytearray()
    while i < n:
        if b[i] == 0:
            j = i
            while j < n and b[j] == 0:
                j += 1
            if j - i >= 8:
                if cur:
                    segs.append(cur.hex())
                    cur = bytearray()
                segs.append("z%d" % (j - i))
                i = j
                continue
        cur.append(b[i])
        i += 1
    if cur:
        segs.append(cur.hex())
    return ".".join(segs)


LEN_POOL = [1, 1, 2, 3, 5, 9, 14, 15, 16, 30, 62, 126, 127, 128, 129, 200, 255, 256, 500, 1020, 1021, 1022,
            1023, 1024, 1025, 1026, 1030, 2047, 2048, 2049, 3100, 16382, 16383, 16384, 16385, 16386]


def gen_lens(rng, maxn, small_bias=True):
    n = rng.randrange(1, maxn + 1)
    mode = rng.randrange(5)
    if mode == 0:       # many tiny equal records -> aligned sums
        l = rng.choice([1, 2, 3, 6, 7, 14, 15, 30, 31, 62, 63])
        return [l] * rng.randrange(1, 200)
    if mode == 1:
        return [rng.choice(LEN_POOL) for _ in range(n)]
    if mode == 2:
        return [rng.randrange(1, 40) for _ in range(n * 3)]
    if mode == 3:       # steer the cumulative framed size onto 1024*m + {-1,0,1}
        lens = []
        total = 0
        for _ in range(n):
            l = rng.randrange(1, 300)
            lens.append(l)
            total += l + len(varint(l))
        target = ((total // 1024) + 1) * 1024 + rng.choice([-1, 0, 0, 0, 1])
        rest = target - total
        if rest >= 2:
            # body b with b + sizeof(b) = rest
            for b in (rest - 1, rest - 2, rest - 3):
                if b >= 1 and b + len(varint(b)) == rest:
                    lens.append(b)
                    break
        lens += [rng.randrange(1, 50) for _ in range(rng.randrange(0, 6))]
        return lens
    return [rng.choice([1, 127, 128, 1023, 1024, 1025]) for _ in range(n)]


def stream_of(rng, lens):
    out = bytearray()
    bounds = [0]
    for l in lens:
        out += varint(l) + body(rng, l)
        bounds.append(len(out))
    return bytes(out), bounds


def chunkings(rng, total, bounds):
    """a few partitions of [0,total) into non-empty chunks"""
    cs = []
    cs.append(list(range(1024, total, 1024)))                         # what the code uses
    cs.append(sorted(set(b for b in bounds if 0 < b < total)))        # exactly on record boundaries
    cs.append(sorted(set(b + 1 for b in bounds if 0 < b + 1 < total)))  # inside the varint / first body byte
    k = rng.randrange(1, 12)
    cs.append(sorted(set(rng.randrange(1, total) for _ in range(k))) if total > 1 else [])
    if total <= 300:
        cs.append(list(range(1, total)))                              # byte by byte
    return cs


def split(b, cuts):
    out = []
    prev = 0
    for c in cuts + [len(b)]:
        out.append(b[prev:c])
        prev = c
    return [x for x in out if x]


def gen_codec(rng, tier):
    cases = []
    big = tier == "thorough"
    # --- varints: every 7-bit group boundary and power of two, plus random
    vals = set()
    for k in range(0, 65):
        for d in (-1, 0, 1):
            v = (1 << k) + d
            if 0 <= v < (1 << 64):
                vals.add(v)
    for _ in range(2000 if big else 200):
        vals.add(rng.getrandbits(rng.randrange(1, 65)))
    vals = sorted(vals)
    for i in range(0, len(vals), 40):
        cases.append(Case("varint-%d" % i, ["w %d" % v for v in vals[i:i + 40]], True, "boundary"))
    # --- malformed / arbitrary byte reads (correspondence only)
    for i in range(400 if big else 60):
        ops = []
        for _ in range(20):
            n = rng.randrange(0, 13)
            b = bytes((rng.randrange(128, 256) if rng.random() < 0.7 else rng.randrange(0, 128)) for _ in range(n))
            ops.append("r %s %d" % (hx(b), rng.randrange(0, n + 2)))
        cases.append(Case("Mread-%d" % i, ops, False, "malformed"))
    # --- drain under chunkings
    nd = 1500 if big else 150
    for i in range(nd):
        lens = gen_lens(rng, 12)
        s, bounds = stream_of(rng, lens)
        tail = rng.choice([b"", b"", b"\0", b"\0" * 7, b"\0" * 1500, b"\0\1", b"\0" + bytes([rng.randrange(256)]) * 5])
        full = s + tail
        ops = []
        for cuts in chunkings(rng, len(full), bounds):
            ops.append("drain " + " ".join(tok(c) for c in split(full, cuts)))
        cases.append(Case("drain-%d" % i, ops, True, "random"))
    # --- end-of-log scan on a real file in 1024-byte reads
    ns = 600 if big else 80
    for i in range(ns):
        lens = gen_lens(rng, 10)
        s, bounds = stream_of(rng, lens)
        tail = rng.choice([b"", b"\0", b"\0" * 100, b"\0" * 1024, b"\0" * 3000])
        cases.append(Case("scan-%d" % i, ["scanfile " + tok(s + tail)], True, "random"))
    # --- exhaustive totals around the chunk size (thorough): every split of total into <= 2 records
    if big:
        for total in range(1018, 1031):
            for a in range(2, total - 2, 37):
                la = a - len(varint(a - 1))
                lb = (total - a)
                lens = []
                for fr in (a, total - a):
                    for bl in (fr - 1, fr - 2):
                        if bl >= 1 and bl + len(varint(bl)) == fr:
                            lens.append(bl)
                            break
                if len(lens) == 2:
                    s, _ = stream_of(rng, lens + [5, 5])
                    cases.append(Case("scanx-%d-%d" % (total, a), ["scanfile " + tok(s + b"\0" * 50)], True, "boundary"))
    # --- stateful reader sequences (correspondence only: no spec opinion per op)
    for i in range(600 if big else 80):
        lens = gen_lens(rng, 6)
        s, bounds = stream_of(rng, lens)
        full = s + rng.choice([b"", b"\0\0\0"])
        cuts = sorted(set(rng.randrange(1, len(full)) for _ in range(rng.randrange(0, 6)))) if len(full) > 1 else []
        ops = ["new"]
        for c in split(full, cuts):
            ops.append("app " + tok(c))
            for _ in range(rng.randrange(0, 4)):
                ops.append(rng.choice(["next", "next", "empty"]))
        ops += ["next", "empty"]
        cases.append(Case("Mreader-%d" % i, ops, False, "random"))
    # --- malformed streams through drain (11-byte varints, length beyond EOF, zero in the middle)
    for i in range(300 if big else 50):
        lens = gen_lens(rng, 4)
        s, bounds = stream_of(rng, lens)
        kind = rng.randrange(4)
        if kind == 0:
            bad = s + bytes([0x80 + rng.randrange(128) for _ in range(rng.randrange(9, 13))]) + b"\1\2\3"
        elif kind == 1:
            bad = s + varint(rng.randrange(50, 5000)) + b"abc"
        elif kind == 2:
            bad = s[: len(s) // 2] + b"\0" + s[len(s) // 2:]
        else:
            bad = bytes(rng.randrange(256) for _ in range(rng.randrange(1, 80)))
        cuts = sorted(set(rng.randrange(1, len(bad)) for _ in range(rng.randrange(0, 5)))) if len(bad) > 1 else []
        cases.append(Case("Mdrain-%d" % i, ["drain " + " ".join(tok(c) for c in split(bad, cuts))], False, "malformed"))
    # --- FileMessageReader positions
    for i in range(300 if big else 50):
        lens = gen_lens(rng, 8)
        s, bounds = stream_of(rng, lens)
        pre = bytes(rng.randrange(256) for _ in range(rng.randrange(0, 20)))
        full = pre + s + rng.choice([b"", b"\0", b"\0" * 20])
        ops = ["fpos %s %d %d" % (tok(full), len(pre), k) for k in range(0, len(lens) + 2)]
        cases.append(Case("fpos-%d" % i, ops, True, "random"))
    # --- FileMessageReader::read_next to the end of the stream: the catalogue (8 header bytes + one small message),
    # snapshot and transfer files; short records right at the end of the file, with and without an end mark
    for i in range(300 if big else 60):
        lens = gen_lens(rng, 8)
        if rng.random() < 0.6:
            lens = lens + [rng.choice([1, 1, 2, 3, 5, 7, 8, 9])] * rng.randrange(1, 3)
        s, bounds = stream_of(rng, lens)
        pre = bytes(rng.randrange(256) for _ in range(rng.choice([0, 0, 8, 8, rng.randrange(0, 20)])))
        full = pre + s + rng.choice([b"", b"", b"\0", b"\0" * 3, b"\0" * 20])
        ops = ["fnext %s %d %d" % (tok(full), len(pre), k) for k in (len(lens) + 2, max(1, len(lens) // 2))]
        cases.append(Case("fnext-%d" % i, ops, True, "random"))
    for pre_n in (0, 8):
        for blen in (1, 2, 5, 8, 9, 10, 11):
            for tail in (b"", b"\0", b"\0" * 12):
                s, _ = stream_of(rng, [blen])
                full = bytes(range(200, 200 + pre_n)) + s + tail
                cases.append(Case("fnext-one-%d-%d-%d" % (pre_n, blen, len(tail)), ["fnext %s %d 3" % (tok(full), pre_n)], True, "boundary"))
    return cases


def search_codec(rng, budget):
    """directed search: streams whose record boundaries land on or next to multiples of 1024"""
    cases = []
    for i in range(min(budget, 3000)):
        lens = gen_lens(rng, 10)
        s, bounds = stream_of(rng, lens)
        tail = rng.choice([b"", b"\0" * 10, b"\0" * 2000])
        cases.append(Case("search-scan-%d" % i, ["scanfile " + tok(s + tail)], True, "search"))
        full = s + tail
        if len(full) > 1:
            cuts = sorted(set(rng.randrange(1, len(full)) for _ in range(rng.randrange(1, 8))))
            cases.append(Case("search-drain-%d" % i, ["drain " + " ".join(tok(c) for c in split(full, cuts))], True, "search"))
    return cases


def nontrivial(c):
    # a case is non-trivial when it carries at least one multi-record stream or >= 2 ops
    return len(c.ops) >= 2 or any(len(o) > 40 for o in c.ops)


class C20(Prop):
    id = "C20"
    lean_module = "RNacos.Props.C20"
    level = "proof"
    design_ref = "DESIGN.md §7 C20"
    models = [ModelRun("codec", gen_codec, nontrivial, rule=(
        "varints: every 2^k-1,2^k,2^k+1 (k<=64) + random u64; streams: record-length sequences from a boundary pool "
        "(1,127/128,1023..1026,16383/16384,>3*1024) with sums steered onto 1024*m+{-1,0,1}, five chunkings each "
        "(1024 fixed, on record boundaries, inside the varint, random, byte-by-byte); real-file scans through "
        "LogInnerManager::init; FileMessageReader positions (read_index_position) and record-by-record reads (read_next "
        "until it fails: streams behind 0/8 header bytes, short records right at the end of the file, with and without "
        "an end mark); separate malformed stream (M* cases, correspondence only). "
        "non-trivial = >=2 ops or a stream op of >40 chars; distinct = sha1 of the op list"), search=search_codec)]
    trusted_base = [
        "model of MessageBufReader/varint functions is hand-written (RNacos/Model/{Varint,BufReader,FileReader}.lean)",
        "tokio::fs::File::read delivers 1024-byte chunks of a regular file (observed; theorem covers every chunking)",
    ]
    assumptions = ["bytes are < 256", "record bodies written by the store are non-empty and shorter than 2^64"]
