"""Generators for the single-log-file model `logfile` (C02/C03): ops for LogInnerManager."""
from ..core import Case


class G:
    """tracks the next index so that most appends are contiguous"""

    def __init__(self, rng, start=1, pre=0, split=0, geom=None):
        self.rng, self.start, self.pre, self.split = rng, start, pre, split
        self.nxt = start
        self.term = max(pre, 1)
        self.interval = geom[0] if geom else 128
        self.ops = ["open %d %d %d%s" % (start, pre, split, " geom=%d,%d" % geom if geom else "")]

    def size(self, mode):
        r = self.rng
        if mode == "tiny":
            return r.choice([0, 0, 1, 3, 9, 9, 20])
        if mode == "mid":          # 128 records >= 16384 bytes: 3-byte index deltas
            return r.choice([120, 130, 200, 201, 202, 203, 204, 300])
        if mode == "mixed":
            return r.choice([0, 1, 9, 50, 126, 127, 128, 129, 200, 1000, 1016, 3000])
        return mode

    def w(self, mode="tiny", n=1, bump=0.1):
        for _ in range(n):
            if self.rng.random() < bump:
                self.term += self.rng.choice([1, 1, 2, 200])
            self.ops.append("w %d %d %d %d" % (self.nxt, self.term, self.size(mode), self.rng.randrange(256)))
            self.nxt += 1

    def bad_w(self):
        i = self.rng.choice([self.nxt + 1, self.nxt + 5, max(self.nxt - 1, 0), self.start, 0])
        if i != self.nxt:
            self.ops.append("w %d %d 3 1" % (i, self.term))

    def strip(self, k):
        self.ops.append("strip %d" % k)
        if self.start <= k < self.nxt:
            self.nxt = k

    def read_some(self):
        r = self.rng
        a = r.randrange(max(self.start - 1, 0), self.nxt + 2)
        b = a + r.choice([1, 2, 5, 130, 1000])
        self.ops.append("read %d %d" % (a, b))

    def check(self, reopen):
        if reopen:
            self.ops.append("reopen")
        self.ops += ["last", "read %d %d" % (max(self.start - 1, 0), self.nxt + 3), "state"]


def cut_points(g):
    """interesting cut points for a log of g.nxt - g.start entries"""
    n = g.nxt - g.start
    pts = {g.start, g.start + 1, g.nxt - 1, g.nxt, g.nxt + 1, g.start + n // 2}
    for b in range(g.interval, n + 1, g.interval):
        pts |= {g.start + b - 1, g.start + b, g.start + b + 1}
    return sorted(p for p in pts if p >= max(g.start - 1, 0))


def cutsteps_cases(rng):
    """cuts that drop two or more index entries while an earlier one is kept, with record sizes for which one offset
    step fits a 2-byte varint and two steps need 3 bytes (frames of 64..127 bytes, 128 records a step): the number of
    index bytes given back is the sum of the steps' own widths; re-appends, reopen, appends after the reopen"""
    cases = []
    for (n, sz) in [(400, 88), (530, 100), (400, 60)]:
        for koff in (129, 200, 257):
            for resz in ("none", "shorter", "longer"):
                g = G(rng, start=rng.choice([1, 1000]), pre=0)
                g.w(sz, n, bump=0.02)
                g.strip(g.start + koff)
                g.ops += ["last", "state"]
                if resz == "shorter":
                    g.w(5, 135, bump=0.02)
                elif resz == "longer":
                    g.w(300, 135, bump=0.02)
                g.check(False)
                g.check(True)
                g.w(sz, 3)
                g.check(True)
                cases.append(Case("cutsteps-n%d-%d-k%d-%s" % (n, sz, koff, resz), g.ops, True, "boundary"))
    return cases


def gen_truncation(rng, tier):
    """C03: every kind of cut, followed by re-appends that are shorter / equal / longer, then reopen"""
    cases = []
    big = tier == "thorough"
    shapes = [(5, "tiny"), (10, 50), (130, "tiny"), (300, "mid"), (260, 9), (400, "mixed")]
    if big:
        shapes += [(700, "tiny"), (520, "mid"), (129, 200), (257, "mixed"), (1300, 9)]
    for (n, mode) in shapes:
        probe = G(rng, start=rng.choice([1, 1, 1000]))
        probe.nxt += n
        pts = cut_points(probe)
        if not big:
            pts = rng.sample(pts, min(len(pts), 6))
        for k in pts:
            for resz in (["shorter", "longer"] if not big else ["shorter", "equal", "longer", "none"]):
                for reopen_first in ([False, True] if big else [rng.random() < 0.5]):
                    g = G(rng, start=probe.start, pre=rng.choice([0, 3]))
                    g.w(mode, n)
                    if reopen_first:
                        g.ops.append("reopen")
                    g.strip(k)
                    g.ops += ["last", "read %d %d" % (max(k - 2, 0), k + 3)]
                    if resz != "none":
                        m = rng.choice([1, 2, 130])
                        if resz == "shorter":
                            g.w(rng.choice([0, 1, 5]), m)
                        elif resz == "equal":
                            g.w(mode, m)
                        else:
                            g.w(rng.choice([300, 1500]), m)
                    g.check(False)
                    g.check(True)
                    cases.append(Case("cut-n%d-%s-k%d-%s-%d" % (n, mode, k - g.start, resz, reopen_first), g.ops, True, "boundary"))
    cases += cutsteps_cases(rng)
    # random histories with several truncations
    for i in range(400 if big else 40):
        g = G(rng, start=rng.choice([1, 1, 7, 500]), pre=rng.choice([0, 2]))
        g.term = max(g.term, g.pre)
        mode = rng.choice(["tiny", "mid", "mixed", 9])
        for _ in range(rng.randrange(2, 9)):
            r = rng.random()
            if r < 0.45:
                g.w(mode, rng.choice([1, 3, 20, 100, 128, 140]))
            elif r < 0.7 and g.nxt > g.start:
                g.strip(rng.randrange(max(g.start - 1, 0), g.nxt + 2))
            elif r < 0.8:
                g.ops.append("reopen")
            elif r < 0.9:
                g.bad_w()
            else:
                g.read_some()
        g.check(False)
        g.check(True)
        cases.append(Case("rand-%d" % i, g.ops, True, "random"))
    # the same with a small index step (hook: geometry of new files): every few records an index entry, the index
    # area fills up after a dozen entries (appends answered `full` are not acknowledged)
    for i in range(600 if big else 60):
        geom = rng.choice([(4, 64), (4, 4096), (8, 128), (3, 100), (2, 4096)])
        g = G(rng, start=rng.choice([1, 1, 7, 500]), pre=rng.choice([0, 2]), geom=geom)
        g.term = max(g.term, g.pre)
        mode = rng.choice(["tiny", "mid", "mixed", 9, 5000])
        for _ in range(rng.randrange(3, 12)):
            r = rng.random()
            if r < 0.4:
                g.w(mode, rng.choice([1, 2, 3, 4, 5, 9, 17]))
            elif r < 0.75 and g.nxt > g.start:
                pts = cut_points(g)
                g.strip(rng.choice(pts) if rng.random() < 0.7 else rng.randrange(max(g.start - 1, 0), g.nxt + 2))
            elif r < 0.85:
                g.ops.append("reopen")
            elif r < 0.92:
                g.bad_w()
            else:
                g.read_some()
        g.check(False)
        g.check(True)
        cases.append(Case("geom-%d" % i, g.ops, True, "random"))
    return cases


def aligned(g, frame, count):
    """records whose frame (1-byte prefix + body) is exactly `frame` bytes while index and term stay < 128"""
    # body = 2 (index) + 2 (term) + 2 (value tag + len) + len
    for _ in range(count):
        g.ops.append("w %d %d %d %d" % (g.nxt, min(g.term, 100), frame - 7, g.rng.randrange(256)))
        g.nxt += 1


def gen_append(rng, tier):
    """C02: size sequences (chunk alignment, index step widths), batches, reopen"""
    cases = []
    big = tier == "thorough"
    # records ending exactly on the 1024-byte read boundary of the end-of-log scan
    for frame in (16, 32, 64, 128) if big else (16, 64):
        for extra in (0, 1, 6, 70):
            g = G(rng, start=1)
            g.term = 1
            aligned(g, frame, 1024 // frame + extra)
            g.check(True)
            g.w("tiny", 3)
            g.check(True)
            cases.append(Case("align-%d-%d" % (frame, extra), g.ops, True, "boundary"))
    # index steps of 1-, 2- and 3-byte offsets: 128 records of < 128 bytes in total are impossible (>= 3 bytes each),
    # 2 bytes up to 16383, 3 bytes above
    for mode, n in ([(0, 300), (9, 300), ("mid", 300), (127, 260), (128, 260), ("mixed", 300)] +
                    ([(2000, 140), ("tiny", 1500), ("mid", 900)] if big else [])):
        for start in ([1, 1000] if big else [1]):
            g = G(rng, start=start)
            g.w(mode, n)
            g.check(True)
            g.w(mode, 140)
            g.ops.append("read %d %d" % (g.start + 120, g.start + 140))
            g.ops.append("read %d %d" % (g.start + 128, g.start + 129))
            g.ops.append("read %d %d" % (g.start + 255, g.start + 258))
            g.check(True)
            cases.append(Case("steps-%s-%d-s%d" % (mode, n, start), g.ops, True, "boundary"))
    # conflict truncations over several index entries (C02: what was acknowledged and not removed survives the reopen)
    cases += cutsteps_cases(rng)
    # random histories without truncation (appends, rejected appends, reads, reopen with split-off)
    for i in range(300 if big else 40):
        g = G(rng, start=rng.choice([1, 1, 64, 9000]), pre=rng.choice([0, 5]))
        g.term = max(g.term, g.pre)
        mode = rng.choice(["tiny", "mid", "mixed", 9, 57])
        for _ in range(rng.randrange(2, 8)):
            r = rng.random()
            if r < 0.55:
                g.w(mode, rng.choice([1, 2, 30, 127, 128, 129, 200]))
            elif r < 0.7:
                g.ops.append("reopen")
            elif r < 0.8:
                g.bad_w()
            elif r < 0.9:
                # compaction pointer: the catalogue moves split_off forward; the file is reopened with it
                sp = rng.randrange(g.start, g.nxt + 1)
                g.split = max(g.split, sp)
                g.ops.append("reopen %d %d %d" % (g.start, g.pre, g.split))
            else:
                g.read_some()
        g.check(False)
        g.check(True)
        cases.append(Case("hist-%d" % i, g.ops, True, "random"))
    # small index step: many index entries, reads that start between them, the index area running full
    for i in range(400 if big else 50):
        geom = rng.choice([(4, 64), (4, 4096), (8, 128), (3, 100), (2, 4096), (5, 200)])
        g = G(rng, start=rng.choice([1, 1, 64, 9000]), pre=rng.choice([0, 5]), geom=geom)
        g.term = max(g.term, g.pre)
        mode = rng.choice(["tiny", "mid", "mixed", 9, 57, 5000])
        for _ in range(rng.randrange(3, 10)):
            r = rng.random()
            if r < 0.55:
                g.w(mode, rng.choice([1, 2, 3, 4, 7, 8, 9, 30]))
            elif r < 0.7:
                g.ops.append("reopen")
            elif r < 0.8:
                g.bad_w()
            else:
                g.read_some()
        g.check(False)
        g.check(True)
        cases.append(Case("geom-%d" % i, g.ops, True, "random"))
    # a few histories with a truncation in the middle (C02 quantifies over them too)
    for i in range(60 if big else 10):
        g = G(rng, start=1)
        g.w(rng.choice(["tiny", "mid"]), rng.choice([10, 140, 270]))
        g.strip(rng.randrange(g.start, g.nxt))
        g.w(rng.choice(["tiny", "mid", 1]), rng.choice([1, 5, 130]))
        g.check(True)
        cases.append(Case("mixed-%d" % i, g.ops, True, "random"))
    # the file grows: it is pre-allocated in steps of 1 MiB and extended by max(record, 1 MiB) when a record does not fit;
    # records that cross the first step, and records larger than several steps followed by small ones (the bookkeeping of
    # the file length decides whether the next `set_len` cuts into what was just written)
    for name, sizes in (("cross-1mib", [600000, 500000, 9, 9]), ("big-3_5mib", [9, 3500000, 9, 9, 200]),
                        ("big-6mib", [300000, 6000000, 9, 9])) + ((("big-2x", [2200000, 9, 2300000, 9, 9]),) if big else ()):
        ops = ["open 1 0 0"]
        for j, ln in enumerate(sizes):
            ops.append("w %d 1 %d %d" % (j + 1, ln, 40 + j))
        ops += ["read 1 100", "last", "state", "reopen", "read 1 100", "last", "state"]
        cases.append(Case("grow-" + name, ops, True, "boundary"))
    return cases


# ---------------------------------------------------------------------------------------------------------
# the whole log through FileStore (model `logstore`): several files, rollover, compaction pointers


class S:
    def __init__(self, rng, geom, start=1):
        self.rng = rng
        self.ops = ["open" + (" geom=%d,%d" % geom if geom else "")]
        self.start = start
        self.nxt = None          # next index, None before the first append
        self.term = 1
        self.floor = start       # lowest index that may be cut (above the installed compaction pointer)
        self.ptrs = []           # compaction pointers handed over so far
        self.seed = 0

    def _sd(self, n=1):
        self.seed += n
        return self.seed - n

    def append(self, n=1, batch=None, size=None):
        r = self.rng
        if self.nxt is None:
            self.nxt = self.start
        if r.random() < 0.15:
            self.term += r.choice([1, 1, 3])
        size = r.choice([0, 5, 5, 40, 200, 1000]) if size is None else size
        if batch or (batch is None and n > 1):
            self.ops.append("b %d %d %d %d %d" % (self.nxt, self.term, n, size, self._sd(n)))
        else:
            for _ in range(n):
                self.ops.append("a %d %d %d %d" % (self.nxt, self.term, size, self._sd()))
                self.nxt += 1
                if r.random() < 0.3:
                    self.ops.append("last")      # also right after a roll-over, while the new file is still empty
            return
        self.nxt += n

    def bad_append(self):
        if self.nxt is None:
            return
        i = self.rng.choice([self.nxt + 1, self.nxt + 7, max(self.nxt - 1, 0), max(self.nxt - 5, 0)])
        if i != self.nxt:
            self.ops.append(self.rng.choice(["a %d %d 3 %d", "b %d %d 2 3 %d"]) % ((i, self.term, self._sd(2))))

    def cut(self, k):
        if self.nxt is None or k < self.floor:
            return
        self.ops.append("del %d" % k)
        if self.rng.random() < 0.5:
            self.ops.append("cat")      # the catalogue of files right after the cut
        if k < self.nxt:
            self.nxt = k

    def compact(self):
        if self.nxt is None or self.nxt - 1 < self.floor:
            return
        i = self.rng.randrange(self.floor, self.nxt)
        if self.ptrs and i <= self.ptrs[-1]:
            return
        self.ops.append("compact %d %d" % (i, self.term))
        if self.rng.random() < 0.5:
            self.ops.append("cat")
        self.ptrs.append(i)
        if len(self.ptrs) >= 2:
            # the pointer of the compaction before this one is installed now
            self.floor = max(self.floor, self.ptrs[-2] + 1)

    def install(self):
        """a snapshot of the leader is installed: onto a log that ends below it, at it, beyond it, or onto no log at all"""
        r = self.rng
        if self.nxt is None:
            i = r.choice([self.start, self.start + 6])
        else:
            lo = max([self.floor] + [p + 1 for p in self.ptrs[-1:]])
            cands = [self.nxt - 1, self.nxt + r.choice([0, 4, 200])]
            if lo < self.nxt:
                cands += [r.randrange(lo, self.nxt), r.randrange(lo, self.nxt)]
            i = max(r.choice(cands), lo)
        if r.random() < 0.3:
            self.term += 1
        self.ops.append("inst %d %d" % (i, self.term))
        if r.random() < 0.5:
            self.ops.append("cat")
        self.nxt = i + 1
        self.floor = i + 1

    def look(self):
        r = self.rng
        hi = (self.nxt or self.start) + 3
        a = r.randrange(0, hi)
        self.ops.append("get %d %d" % (a, a + r.choice([1, 3, 10, 50, 10000])))

    def check(self, reopen):
        if reopen:
            self.ops.append("reopen")
        self.ops += ["last", "get 0 1000000", "files", "cat"]


def gen_store(rng, tier, mode):
    cases = []
    # directed: the term changes inside a file and the record that fills the file arrives by a single append; the last
    # index and term are asked for after every append (the new file is empty right after the roll-over) and after a reopen
    for geom, fill in (((4, 64), 44), ((3, 100), 60)):
        ops = ["open geom=%d,%d" % geom, "b 1 1 %d 5 0" % (fill - 6)]
        for j in range(fill - 5, fill + 4):
            ops += ["a %d 2 5 %d" % (j, 1000 + j), "last"]
        ops += ["reopen", "last", "get 0 100000", "cat"]
        cases.append(Case("rollover-single-%d_%d" % geom, ops, True, "boundary"))
    # directed: an entry of several MiB (a large configuration) followed by small ones, read back before and after a reopen
    for name, ln in (("3_5mib", 3500000), ("6mib", 6000000)):
        cases.append(Case("store-big-" + name, ["open", "a 1 1 9 1", "a 2 1 %d 2" % ln, "a 3 1 9 3", "b 4 2 3 9 4", "last", "get 0 100",
                                                "reopen", "last", "get 0 100"], True, "boundary"))
    big = tier == "thorough"
    geoms = [(4, 64), (4, 64), (3, 100), (8, 128), (5, 64), None]
    for i in range((500 if big else 70)):
        geom = rng.choice(geoms)
        s = S(rng, geom, start=rng.choice([1, 1, 1, 20]))
        for _ in range(rng.randrange(4, 14)):
            r = rng.random()
            if mode == "trunc":
                w = [0.35, 0.3, 0.08, 0.08, 0.05, 0.14]
            else:
                w = [0.5, 0.08, 0.12, 0.1, 0.06, 0.14]
            if r < w[0]:
                n = rng.choice([1, 1, 2, 3, 10, 30, 47, 60, 100])
                s.append(n, batch=rng.random() < 0.6 if n > 1 else None, size=rng.choice([None, 5]))
            elif r < w[0] + w[1] and s.nxt is not None:
                k = rng.choice([s.nxt - 1, s.nxt, s.nxt + 2, rng.randrange(s.floor, s.nxt + 1), rng.randrange(s.floor, s.nxt + 1)])
                s.cut(max(k, s.floor))
            elif r < sum(w[:3]):
                s.ops.append("reopen")
            elif r < sum(w[:4]):
                s.compact()
            elif r < sum(w[:5]):
                s.bad_append()
            elif rng.random() < 0.25:
                s.install()
            else:
                s.look()
        s.check(False)
        s.check(True)
        cases.append(Case("store-%d" % i, s.ops, True, "random"))
    # directed: a snapshot installed onto a log that ends below it (F28), reaches beyond it (F29), ends on it, and onto no
    # log at all; the leader's next entries are appended, read back, the store reopened, and cut back to the pointer
    for geom in [(4, 64), (3, 100), None]:
        for name, pre, at in (("behind", 30, 75), ("longer", 30, 12), ("exact", 30, 30), ("fresh", 0, 9), ("longer-2files", 70, 50)):
            ops = ["open" + (" geom=%d,%d" % geom if geom else "")]
            if pre:
                ops += ["b 1 1 %d 5 0" % pre, "last"]
            ops += ["inst %d 2" % at, "cat", "last", "get 0 100000", "a %d 2 5 500" % (at + 2), "a %d 2 5 501" % (at + 1),
                    "b %d 3 50 5 502" % (at + 2), "last", "get 0 100000", "cat", "reopen", "last", "get 0 100000", "cat",
                    "del %d" % (at + 1), "last", "a %d 4 7 600" % (at + 1), "get 0 100000", "reopen", "last", "get 0 100000"]
            cases.append(Case("install-%s-%s" % (name, "%d_%d" % geom if geom else "default"), ops, True, "boundary"))
    # directed: a cut in every file of a three-file log and on the file boundaries, then re-append and reopen
    for geom in [(4, 64), (3, 100)]:
        probe = S(rng, geom)
        per = {(4, 64): 44, (3, 100): 60}[geom]
        for k in sorted(set([1, 2, per - 1, per, per + 1, per + 2, 2 * per, 2 * per + 1, 2 * per + 5, 2 * per + 19, 2 * per + 20, 2 * per + 21])):
            for re in ([1, 0] if big else [1]):
                s = S(rng, geom)
                s.append(2 * per + 20, batch=True, size=5)
                if re == 0:
                    s.ops.append("reopen")
                s.cut(k)
                s.ops += ["last", "get %d %d" % (max(k - 3, 0), k + 5)]
                s.append(rng.choice([1, 3, per]), size=rng.choice([0, 5, 300]))
                s.check(False)
                s.check(True)
                cases.append(Case("filecut-%d_%d-k%d-%d" % (geom[0], geom[1], k, re), s.ops, True, "boundary"))
    return cases


def gen_store_hardstate(rng, tier):
    """C05 at the level raft sees it: term and vote saved through `FileStore::save_hard_state` and read back through
    `get_initial_state` - with an empty log, with entries, after the log was cut back to nothing, across reopens"""
    cases = []
    # directed: a vote with nothing in the log (a fresh node is asked for its vote before it holds any entry)
    cases.append(Case("hs-empty-log", ["open", "init", "hs 3 2", "init", "reopen", "init", "hs 3 1", "init", "hs 5 0", "reopen", "init",
                                       "a 1 5 9 7", "init", "reopen", "init"], True, "boundary"))
    cases.append(Case("hs-log-cut-to-nothing", ["open", "a 1 1 9 3", "a 2 1 9 4", "hs 2 3", "init", "del 1", "init", "reopen", "init", "hs 4 1",
                                                "init", "a 1 4 9 5", "init", "reopen", "init"], True, "boundary"))
    for i in range(300 if tier == "thorough" else 30):
        ops = ["open"]
        nxt, term = 1, 1
        for _ in range(rng.randrange(4, 14)):
            r = rng.random()
            if r < 0.3:
                term += rng.choice([0, 0, 1, 2])
                ops.append("hs %d %d" % (term, rng.choice([0, 1, 2, 3])))
            elif r < 0.5:
                n = rng.choice([1, 1, 2, 5])
                ops.append("b %d %d %d 9 %d" % (nxt, term, n, rng.randrange(1000)))
                nxt += n
            elif r < 0.6 and nxt > 1:
                k = rng.randrange(1, nxt)
                ops.append("del %d" % k)
                nxt = k
            elif r < 0.75:
                ops.append("reopen")
            else:
                ops.append("init")
        ops += ["init", "reopen", "init"]
        cases.append(Case("hs-%d" % i, ops, True, "random"))
    return cases
