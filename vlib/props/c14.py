"""C14 — distro ownership: each service has exactly one owner and routing agrees."""
import itertools
from ..core import Case
from ..runner import Prop, ModelRun


def view_case(ids, valid):
    ops = ["node ids=%s valid=%s local=%d" % (",".join(map(str, ids)), ",".join(map(str, valid)), n) for n in valid]
    ops.append("verdict")
    return Case("view-%s-up-%s" % ("_".join(map(str, ids)), "_".join(map(str, valid))), ops, True, "exhaustive")


def flap_case(ids, valid, flap):
    live = sorted(set(valid) | set(flap))
    ops = ["node ids=%s valid=%s flap=%s local=%d" % (",".join(map(str, ids)), ",".join(map(str, valid)),
                                                      ",".join(map(str, flap)), n) for n in valid]
    # the recovered nodes themselves hold the recovered view
    ops += ["node ids=%s valid=%s local=%d" % (",".join(map(str, ids)), ",".join(map(str, live)), f) for f in flap]
    ops.append("verdict")
    return Case("flap-%s-up-%s-back-%s" % ("_".join(map(str, ids)), "_".join(map(str, valid)), "_".join(map(str, flap))),
                ops, True, "exhaustive")


def swap_case(ids, valid, flap, drop):
    """one node comes back while another one expires in the same status tick: the number of live nodes stays"""
    f, d = ",".join(map(str, flap)), ",".join(map(str, drop))
    ops = ["node ids=%s valid=%s flap=%s drop=%s local=%d" % (",".join(map(str, ids)), ",".join(map(str, valid)), f, d, n)
           for n in valid]
    ops += ["node ids=%s valid=%s drop=%s local=%d" % (",".join(map(str, ids)), ",".join(map(str, sorted(set(valid) | set(flap)))), d, x)
            for x in flap]
    ops.append("verdict")
    return Case("swap-%s-up-%s-back-%s-gone-%s" % ("_".join(map(str, ids)), "_".join(map(str, valid)), f.replace(",", "_"),
                                                  d.replace(",", "_")), ops, True, "exhaustive")


def gen_distro(rng, tier):
    cases = []
    idsets = [list(range(1, n + 1)) for n in range(1, 6)]
    if tier == "thorough":
        idsets += [[3, 7, 9], [2, 4, 6, 8], [10, 20, 30, 40, 50], [5, 6]]
    for ids in idsets:
        for k in range(1, len(ids) + 1):
            for valid in itertools.combinations(ids, k):
                cases.append(view_case(ids, list(valid)))
    # a node that timed out and reports in again: the owner range must follow the recovered view
    for ids in ([1, 2], [1, 2, 3], [1, 2, 3, 4]) if tier == "quick" else idsets[1:]:
        for k in range(1, len(ids)):
            for valid in itertools.combinations(ids, k):
                rest = [i for i in ids if i not in valid]
                for f in rest:
                    cases.append(flap_case(ids, list(valid), [f]))
    # a node reports in again while another one runs into its time-out (same tick: live count unchanged, live set changed)
    for ids in ([1, 2, 3], [1, 2, 3, 4]) if tier == "quick" else idsets[2:]:
        for k in range(1, len(ids) - 1):
            for valid in itertools.combinations(ids, k):
                rest = [i for i in ids if i not in valid]
                for f in rest:
                    for d in rest:
                        if f != d:
                            cases.append(swap_case(ids, list(valid), [f], [d]))
    return cases


class C14(Prop):
    id = "C14"
    lean_module = "RNacos.Props.C14"
    level = "proof"
    design_ref = "DESIGN.md §7 C14"
    models = [ModelRun("distro", gen_distro, lambda c: len(c.ops) >= 2, spec_needs_impl=True, shrinkable=False, rule=(
        "exhaustive: every cluster size 1..5 x every non-empty subset of live nodes x every live node as the local "
        "node (one real InnerNodeManage actor each; the nodes that are down are starved of pings past the genuine "
        "15 s timeout; plus views in which a starved node reports in again and must be counted as live after the next status tick, and views in which one node reports in again within the very status period in which another one expires - same number of live nodes, another live set), hash residues 0..59 (lcm(1..5)) through real keys hashed by the implementation; "
        "non-trivial = at least one node op + verdict; distinct = sha1 of the op list"))]
    trusted_base = [
        "model of get_current_process_range / is_range / route_addr is hand-written (RNacos/Model/Distro.lean)",
        "all live nodes hold the same view (the property's premise); BTreeMap iteration = ascending id order",
    ]
    assumptions = ["hash values are represented by their residue mod 60 (sound for cluster sizes 1..5 only in the "
                   "correspondence; the theorems are for every size and every hash value)"]
