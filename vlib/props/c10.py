"""C10 — config change notification is complete: no listener waits on a stale md5."""
import itertools
from ..core import Case
from ..runner import Prop, ModelRun

KEYS = ["d1|g1|t1", "d2|g1|t1", "d1|g2|-", "d3|g1|t2", "d1|g1|t2"]
CONTENTS = ["61", "62", "63"]


def gen_listen_case(rng, n, alphabet_only=True):
    ops = []
    cur = {}          # key -> content or None
    hid = 0
    nlabel = 0
    clients = ["c1", "c2", "c3"]
    removed_subscribed = set()   # keys removed while somebody was subscribed: finding F13 region is avoided
    subs = {}                    # key -> set(clients)
    for _ in range(n):
        r = rng.random()
        k = rng.choice(KEYS)
        if r < 0.28:
            hid += 1
            c = rng.choice(CONTENTS)
            ops.append("add %s c=%s type=- desc=- hid=%d mark=- time=%d user=-" % (k, c, hid, hid))
            cur[k] = c
        elif r < 0.36:
            if subs.get(k):
                removed_subscribed.add(k)
            subs[k] = set()
            ops.append("remove %s" % k)
            cur[k] = None
        elif r < 0.62:
            nlabel += 1
            ks = rng.sample(KEYS, rng.randrange(1, 4))
            items = []
            for kk in ks:
                held = rng.choice(["cur", "cur", "cur", "stale", "none"])
                if held == "cur":
                    tok = cur.get(kk) or "-"
                elif held == "stale":
                    tok = rng.choice(CONTENTS)
                else:
                    tok = "-"
                items.append("%s=%s" % (kk, tok))
            ops.append("listen L%d dl=%s %s" % (nlabel, rng.choice(["future", "future", "past", "zero"]), " ".join(items)))
        elif r < 0.64:
            ops.append("tick")
        elif r < 0.82:
            c = rng.choice(clients)
            ks = rng.sample(KEYS, rng.randrange(1, 3))
            for kk in ks:
                subs.setdefault(kk, set()).add(c)
            ops.append("sub %s %s" % (c, " ".join("%s=%s" % (kk, (cur.get(kk) or "-") if rng.random() < 0.7 else "63") for kk in ks)))
        elif r < 0.88:
            c = rng.choice(clients)
            ks = rng.sample(KEYS, rng.randrange(1, 3))
            for kk in ks:
                subs.get(kk, set()).discard(c)
            ops.append("unsub %s %s" % (c, " ".join(ks)))
        elif r < 0.92:
            c = rng.choice(clients)
            for kk in subs:
                subs[kk].discard(c)
            ops.append("rmclient %s" % c)
        elif r < 0.96 and not alphabet_only:
            c = rng.choice(CONTENTS)
            ops.append("tmp %s c=%s" % (k, c))
            cur[k] = c        # what a client reads on this node, and the md5 it then holds
            if rng.random() < 0.8 and k not in removed_subscribed:
                # the forwarded publish is committed and applied on this node shortly afterwards (the usual sequence),
                # now and then after a listener has registered with the temporary value
                if rng.random() < 0.3:
                    nlabel += 1
                    ops.append("listen L%d dl=future %s=%s" % (nlabel, k, c))
                hid += 1
                ops.append("add %s c=%s type=- desc=- hid=%d mark=- time=%d user=-" % (k, c, hid, hid))
        else:
            ops.append("dump")
    ops.append("tick")
    ops.append("dump")
    return ops


def gen_listener(rng, tier):
    cases = []
    big = tier == "thorough"
    for i in range(2500 if big else 200):
        cases.append(Case("listen-%d" % i, gen_listen_case(rng, rng.randrange(4, 40)), True, "random"))
    for i in range(400 if big else 40):
        # with temporary values (SetTmpValue: the node forwarded a publish to the leader and shows it before it is applied)
        cases.append(Case("Tlisten-%d" % i, gen_listen_case(rng, rng.randrange(4, 40), alphabet_only=False), True, "random"))
    if big:
        # every interleaving of <= 4 events over one key: two listeners, publish a/b, remove
        evs = ["add d1|g1|t1 c=61 type=- desc=- hid={h} mark=- time=1 user=-",
               "add d1|g1|t1 c=62 type=- desc=- hid={h} mark=- time=1 user=-",
               "remove d1|g1|t1", "listen L{n} dl=future d1|g1|t1=61", "listen L{n} dl=future d1|g1|t1=-",
               "listen L{n} dl=past d1|g1|t1=62 d2|g1|t1=-", "tick"]
        for n in range(1, 5):
            for pat in itertools.product(range(len(evs)), repeat=n):
                ops = [evs[p].format(h=j + 1, n=j + 1) for j, p in enumerate(pat)]
                cases.append(Case("listenx-%s" % "".join(map(str, pat)), ops + ["tick", "dump"], True, "exhaustive"))
    return cases


def region_sub_after_remove(case):
    """finding F13: a key is removed while subscribed and published again later"""
    subscribed = set()
    removed = set()
    for op in case.ops:
        w = op.split()
        if w[0] == "sub":
            for it in w[2:]:
                subscribed.add(it.split("=")[0])
        elif w[0] == "remove" and w[1] in subscribed:
            removed.add(w[1])
        elif w[0] == "add" and w[1] in removed:
            return True
    return False


class C10(Prop):
    id = "C10"
    lean_module = "RNacos.Props.C10"
    level = "proof"
    design_ref = "DESIGN.md §7 C10"
    models = [ModelRun("config", gen_listener, lambda c: len(c.ops) >= 4, spec_needs_impl=True,
                       regions={}, jobs=14,
                       search=lambda rng, b: gen_listener(rng, "quick") * 3, rule=(
        "random interleavings (4-40 ops) of listen (1-3 keys, held md5 current/stale/none, deadline past/future/zero), "
        "tick, subscribe/unsubscribe/client removal and publish/remove over 5 keys and 3 contents on the real ConfigActor; "
        "long-poll answers observed on the real oneshot receivers, NotifyConfig through the hook log; thorough: every "
        "interleaving of <=4 events over one key. oracle: a listener holding a differing md5 is answered at once, every "
        "content change answers all waiting long-polls of the key and notifies all its subscribers, expired long-polls are "
        "answered by the next tick, nobody is answered twice. Known finding F13 is attributed per observation: only the missing notification of a subscriber whose subscription was in force when its key was removed, and who has not subscribed again since, belongs to it; a subscriber that subscribes again after the removal must be told like anybody else."))]
    trusted_base = [
        "hand model RNacos/Model/Listener.lean (ghost: the md5s a pending long-poll was registered with)",
        "the 500 ms hb timer of the actor fires within 650 ms (tick op); wall-clock deadlines are past/future only",
        "NotifyConfig is observed at its send site through a cfg-guarded hook, delivery to the client is not modelled",
    ]
    assumptions = ["actix delivers actor messages in FIFO order; each handler runs atomically inside the actor"]
