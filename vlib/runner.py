"""Generic verdict procedure for one property (DESIGN.md §5)."""
import os
import time
import glob
import json

from . import core
from .core import Case, log


class Prop:
    """Static description of one property's check."""
    id = "C00"
    lean_module = None            # RNacos.Props.Cxx
    level = "proof"
    design_ref = ""
    models = []                   # list of ModelRun
    trusted_base = []
    assumptions = []
    extra_lake_targets = ()
    table_checks = None           # optional callable(ctx) -> list of failure dicts (generated-table obligations)


class ModelRun:
    def __init__(self, model, gen, nontrivial=None, regions=None, impl_env=None, spec_needs_impl=False,
                 rule="", search=None, shrinkable=True, jobs=1):
        self.model = model
        self.gen = gen                    # gen(rng, tier) -> list[Case]
        self.nontrivial = nontrivial or (lambda c: len(c.ops) >= 2)
        self.regions = regions or {}      # region name -> predicate(case) for known findings
        self.impl_env = impl_env
        self.spec_needs_impl = spec_needs_impl
        self.rule = rule
        self.shrinkable = shrinkable
        self.jobs = jobs
        self.search = search              # search(rng, budget) -> list[Case]: directed failing-input search


def corpus_cases(model):
    out = []
    for p in sorted(glob.glob(os.path.join(core.VERIF, "corpus", model, "*.ops"))):
        ops = [l.rstrip("\n") for l in open(p) if l.strip() and not l.startswith("#")]
        oracle = not os.path.basename(p).startswith("M")
        out.append(Case("corpus:" + os.path.basename(p), ops, oracle, "corpus"))
    return out


def run_property(prop, tier, seed, replay=None):
    t0 = time.time()
    violations = []      # (replay_path, suffix)
    known_lines = []
    notes = []
    cov = {}

    # ---- 1-3 proof obligations
    info = core.proof_obligations(prop.lean_module, prop.extra_lake_targets)
    cov["obligations"] = info["obligations"]
    cov["discharged"] = info["discharged"]
    cov["theorems"] = info["theorems"]
    cov["axioms_used"] = info["axioms_used"]
    cov["lake_build_s"] = info["lake_build_s"]
    cov["checker_cmd"] = (f"cd /verif/lean && lake build {prop.lean_module} && lake env lean ../work/Audit_"
                          f"{prop.lean_module.replace('.', '_')}.lean  (#print axioms of every theorem)")
    proof_broken = list(info["failures"])
    if info["discharged"] != info["obligations"] and not proof_broken:
        proof_broken.append("not every theorem was discharged")
    if tier == "thorough" and not proof_broken:
        rc, out = core.sh(["lake", "env", "leanchecker", prop.lean_module], cwd=core.LEAN, timeout=3600)
        cov["leanchecker_rc"] = rc
        if rc != 0:
            proof_broken.append("leanchecker rejected " + prop.lean_module + ": " + out[-500:])

    # ---- table obligations (generated tables evaluated against the implementation)
    table_failures = []

    # ---- 4 harness build
    rc, out, dt = core.cargo_build()
    cov["cargo_build_s"] = round(dt, 1)
    harness_ok = rc == 0
    corr_broken = []
    if not harness_ok:
        errs = [l for l in out.splitlines() if l.startswith("error")][:10]
        corr_broken.append("harness does not build against /repo: " + " | ".join(errs))

    # the cluster scenarios run the repository's own binary: rebuild it from the current working tree
    if harness_ok and any(mr.model == "cluster" for mr in prop.models):
        t0 = time.time()
        rc2, out2 = core.sh(["cargo", "build", "--offline"], cwd=core.REPO, timeout=3600)
        cov["repo_bin_build_s"] = round(time.time() - t0, 1)
        if rc2 != 0:
            harness_ok = False
            errs = [l for l in out2.splitlines() if l.startswith("error")][:10]
            corr_broken.append("/repo does not build: " + " | ".join(errs))

    if prop.table_checks and harness_ok:
        table_failures = prop.table_checks({"tier": tier, "seed": seed, "cov": cov})

    # ---- 5 correspondence + oracle
    total_eval = 0
    distinct = set()
    dist = {}
    samples = []
    disagreements = 0
    oracle_rejections = 0
    kf_hits = {}
    findings = core.load_known_findings(prop.id)
    open_findings = [f for f in findings if f.get("status") == "open"]
    core.OPEN_IDS = {f["id"] for f in open_findings}
    model_runs = prop.models if harness_ok else []
    pending_oracle, pending_corr = [], []
    for mr in model_runs:
        rng = core.Rng(seed)
        if replay:
            ops = [l.rstrip("\n") for l in open(replay) if l.strip() and not l.startswith("#")]
            cases = [Case("replay", ops)]
        else:
            cases = corpus_cases(mr.model) + mr.gen(rng, tier)
        # witnesses of known findings are replayed separately
        res, meta = core.run_cases(mr.model, cases, mr.impl_env, mr.spec_needs_impl, jobs=mr.jobs,
                                   timeout=1200 if tier == "quick" else 4000)
        if meta["impl_crashed"] or not meta["model_lines_ok"] or not meta["spec_lines_ok"]:
            # fall back to one process per case so that a crash is attributed to its case
            res = []
            for c in cases:
                r1, m1 = core.run_cases(mr.model, [c], mr.impl_env, mr.spec_needs_impl)
                res.extend(r1)
        for r in res:
            c = r["case"]
            total_eval += 1
            dist[c.kind] = dist.get(c.kind, 0) + 1
            for op in c.ops:
                k = "op:" + op.split(" ", 1)[0]
                dist[k] = dist.get(k, 0) + 1
            if mr.nontrivial(c):
                distinct.add(core.case_hash(c))
            corr_ok, oracle_ok, bad = core.judge(r)
            if replay:
                for k, op in enumerate(c.ops):
                    log(f"[{k}] {op[:200]}\n     impl : {r['impl'][k][:300] if k < len(r['impl']) else '<missing>'}\n"
                        f"     model: {r['model'][k][:300] if k < len(r['model']) else '<missing>'}\n"
                        f"     spec : {r['spec'][k][:300] if k < len(r['spec']) else '-'}")
            for sl in r["spec"]:
                if sl.startswith("spec KNOWN"):
                    kid = sl.split()[2] if len(sl.split()) > 2 else "?"
                    kf_hits[kid] = kf_hits.get(kid, 0) + 1
            if corr_ok and oracle_ok:
                if len(samples) < 4 and c.kind != "corpus" and mr.nontrivial(c):
                    samples.append({"model": mr.model, "case": c.name, "ops": [o[:300] for o in c.ops[:12]],
                                    "impl": [o[:200] for o in r["impl"][:12]]})
                continue
            if not oracle_ok:
                oracle_rejections += 1
                # attribute to an open known finding?
                hit = None
                for f in open_findings:
                    pred = mr.regions.get(f.get("region"))
                    if pred and pred(c):
                        hit = f
                        break
                if hit:
                    kf_hits[hit["id"]] = kf_hits.get(hit["id"], 0) + 1
                    continue
                pending_oracle.append((mr, c, r))
            else:
                disagreements += 1
                pending_corr.append((mr, c, r))

        # every case has been judged; minimise and report a few of each kind (oracle rejections first)
        # flake rule (DESIGN 5.5): a rejection counts only if the case, run again on its own, is rejected again - otherwise
        # it is logged as inconclusive. The models that run several real processes (`apply`, `cluster`) depend on the
        # machine's load, and under heavy load even an in-process harness has been seen to lose an actor system once
        # (`dead` on a reopen that succeeds every time when repeated); a deterministic failure reproduces at no cost
        confirmed = []
        for mr_, c, r_orig in pending_oracle:
            if len(confirmed) < 4:
                rr, _ = core.run_cases(mr_.model, [c], mr_.impl_env, mr_.spec_needs_impl)
                if core.judge(rr[0])[1]:
                    notes.append(f"note: inconclusive - case {c.name} was rejected once and accepted when run again on its own")
                    oracle_rejections -= 1
                    continue
                confirmed.append((mr_, c, rr[0]))
            else:
                confirmed.append((mr_, c, r_orig))
        pending_oracle = confirmed
        for mr_, c, r_orig in pending_oracle[:4]:
            open_preds = [mr_.regions[f["region"]] for f in open_findings if f.get("region") in mr_.regions]
            avoid = (lambda cc: any(p(cc) for p in open_preds)) if open_preds else None
            small = core.shrink(mr_.model, c, lambda j: not j[1], mr_.impl_env, mr_.spec_needs_impl, avoid=avoid) if mr_.shrinkable else c
            if small is c:
                r2 = [r_orig]       # report the run that failed, not a re-run (timing-dependent scenarios)
            else:
                r2, _ = core.run_cases(mr_.model, [small], mr_.impl_env, mr_.spec_needs_impl)
                if core.judge(r2[0])[1]:
                    small, r2 = c, [r_orig]   # the minimised case does not fail any more: keep the original
            p = core.write_replay(prop.id, seed, "oracle", small, r2[0],
                                  "the implementation's answers violate the property's spec oracle")
            violations.append((p, ""))
        # the same for disagreements between model and implementation: one that does not repeat when the case is run on
        # its own (a node that did not come up, an actor system lost under load) is inconclusive, not a broken correspondence
        confirmed_corr = []
        for mr_, c, r_orig in pending_corr:
            if len(confirmed_corr) < 4:
                rr, _ = core.run_cases(mr_.model, [c], mr_.impl_env, mr_.spec_needs_impl)
                if core.judge(rr[0])[0]:
                    notes.append(f"note: inconclusive - case {c.name} disagreed with the model once and agreed when run again on its own")
                    disagreements -= 1
                    continue
                confirmed_corr.append((mr_, c, rr[0]))
            else:
                confirmed_corr.append((mr_, c, r_orig))
        pending_corr = confirmed_corr
        for mr_, c, r_orig in pending_corr[: (2 if pending_oracle else 4)]:
            small = core.shrink(mr_.model, c, lambda j: not j[0], mr_.impl_env, mr_.spec_needs_impl) if mr_.shrinkable else c
            if small is c:
                r2 = [r_orig]
            else:
                r2, _ = core.run_cases(mr_.model, [small], mr_.impl_env, mr_.spec_needs_impl)
                if core.judge(r2[0])[0]:
                    small, r2 = c, [r_orig]
            p = core.write_replay(prop.id, seed, "corr", small, r2[0],
                                  f"correspondence:{mr_.model} – model and implementation disagree; "
                                  "the spec oracle accepts the implementation's answers on this case")
            corr_broken.append((mr_, p))
        pending_oracle, pending_corr = [], []

        # ---- known findings: replay the witnesses of open entries
        for f in open_findings:
            if f.get("model") != mr.model:
                continue
            w = Case("witness:" + f["id"], f["witness_ops"], True, "witness")
            rw, _ = core.run_cases(mr.model, [w], mr.impl_env, mr.spec_needs_impl)
            saved_ids, core.OPEN_IDS = core.OPEN_IDS, set()     # the witness must still fail when nothing is attributed
            corr_ok, oracle_ok, bad = core.judge(rw[0])
            core.OPEN_IDS = saved_ids
            total_eval += 1
            if not oracle_ok:
                known_lines.append(f"KNOWN-FINDING: property={prop.id} {f['id']}: {f['what']}")
            else:
                notes.append(f"note: known finding {f['id']} no longer reproduces")
            if not corr_ok:
                notes.append(f"note: model and implementation disagree on the witness of {f['id']}")

    # ---- failing-input search when an obligation or the correspondence broke without a concrete failure
    searched = 0
    need_search = (proof_broken or table_failures or corr_broken) and not violations and harness_ok and not replay
    if need_search:
        budget = 4000 if tier == "quick" else 40000
        for mr in model_runs:
            if mr.search is None:
                continue
            rng = core.Rng(seed ^ 0x5EA4C4)
            cases = mr.search(rng, budget)
            for i in range(0, len(cases), 500):
                batch = cases[i:i + 500]
                res, meta = core.run_cases(mr.model, batch, mr.impl_env, mr.spec_needs_impl, jobs=mr.jobs)
                searched += len(batch)
                found = False
                for r in res:
                    corr_ok, oracle_ok, bad = core.judge(r)
                    if not oracle_ok:
                        small = core.shrink(mr.model, r["case"], lambda j: not j[1], mr.impl_env, mr.spec_needs_impl)
                        r2, _ = core.run_cases(mr.model, [small], mr.impl_env, mr.spec_needs_impl)
                        if core.judge(r2[0])[1]:
                            # the (minimised) case does not fail when it is run on its own: try the original once more;
                            # a rejection that cannot be reproduced is no failing input (the batch ran 8 node groups at
                            # once - a node that was slow to answer is not a violation of the property)
                            small = r["case"]
                            r2, _ = core.run_cases(mr.model, [small], mr.impl_env, mr.spec_needs_impl)
                            if core.judge(r2[0])[1]:
                                notes.append(f"note: search case {small.name} was rejected once and accepted when re-run")
                                continue
                        p = core.write_replay(prop.id, seed, "search", small, r2[0],
                                              "found by the directed failing-input search after a broken obligation/"
                                              "correspondence: the implementation violates the spec oracle")
                        violations.append((p, ""))
                        found = True
                        break
                if found:
                    break
            if violations:
                break
    if (proof_broken or table_failures or corr_broken) and not violations:
        what = []
        what += ["obligation: " + x for x in proof_broken]
        what += ["table: " + json.dumps(x) for x in table_failures]
        for x in corr_broken:
            what.append(x if isinstance(x, str) else f"correspondence:{x[0].model} (disagreeing case: {x[1]})")
        os.makedirs(os.path.join(core.WORK, "replays"), exist_ok=True)
        p = os.path.join(core.WORK, "replays", f"{prop.id}-{seed}-unproved.replay")
        with open(p, "w") as fh:
            fh.write(f"# property {prop.id}\n# no failing input found ({searched} extra cases searched); "
                     "the property is no longer shown to hold because:\n")
            for w in what:
                fh.write("#   " + w.replace("\n", "\n#   ") + "\n")
            if info.get("build_log_tail"):
                fh.write("# build log tail:\n#   " + info["build_log_tail"].replace("\n", "\n#   ") + "\n")
        violations.append((p, " no-failing-input-found"))

    # ---- evidence
    cov["trusted_base"] = core.TRUSTED_BASE_COMMON + list(prop.trusted_base)
    cov["evaluations"] = total_eval
    cov["distinct_nontrivial"] = len(distinct)
    cov["rule"] = " || ".join(f"{mr.model}: {mr.rule}" for mr in prop.models)
    cov["samples"] = samples if samples else [{"note": "no passing generated case to sample"}]
    cov["distribution"] = dist
    cov["disagreements_model_vs_impl"] = disagreements
    cov["oracle_rejections"] = oracle_rejections
    cov["known_finding_hits"] = kf_hits
    cov["known_findings_open"] = [f["id"] for f in open_findings]
    cov["failing_input_search_cases"] = searched
    cov["notes"] = notes
    if proof_broken:
        cov["proof_failures"] = proof_broken
    if table_failures:
        cov["table_failures"] = table_failures
    if prop.level == "other":
        cov["explanation"] = getattr(prop, "explanation", "")
    if replay:
        return 0
    core.write_evidence(prop.id, tier, seed, prop.level, cov, list(prop.assumptions), time.time() - t0,
                        len(violations))
    for l in known_lines:
        log(l)
    for n in notes:
        log(n)
    log(f"{prop.id}: theorems {cov['discharged']}/{cov['obligations']} discharged; "
        f"{total_eval} cases ({len(distinct)} distinct non-trivial), {disagreements} disagreements, "
        f"{oracle_rejections} oracle rejections, {time.time() - t0:.1f}s")
    if violations:
        for p, suffix in violations:
            log(f"VIOLATION property={prop.id} replay={p}{suffix}")
        return 1
    return 0
